package main

import (
	"encoding/json"
	"fmt"
	"strings"
)

// ---------- condition trees (the specification's view) and their concrete syntax ----------

type Step struct {
	Key   []byte
	IsIdx bool
	Idx   int
}

func (s Step) MarshalJSON() ([]byte, error) {
	if s.IsIdx {
		return json.Marshal(map[string]int{"idx": s.Idx})
	}
	return json.Marshal(map[string]string{"key": hx(s.Key)})
}

type Operand struct {
	Kind  string // path | val | size
	Root  []byte
	Steps []Step
	Val   AV
}

func (o Operand) MarshalJSON() ([]byte, error) {
	switch o.Kind {
	case "val":
		return json.Marshal(map[string]interface{}{"k": "val", "v": o.Val})
	default:
		st := o.Steps
		if st == nil {
			st = []Step{}
		}
		return json.Marshal(map[string]interface{}{"k": o.Kind, "root": hx(o.Root), "steps": st})
	}
}

type Cond struct {
	K    string `json:"k"` // cmp between in and or not fn
	Op   string `json:"op,omitempty"`
	L    *Operand `json:"l,omitempty"`
	R    *Operand `json:"r,omitempty"`
	X    *Operand `json:"x,omitempty"`
	Ins  []Operand `json:"ins,omitempty"`
	Fn   string `json:"fn,omitempty"`
	Args []Operand `json:"args,omitempty"`
	A    *Cond `json:"a,omitempty"`
	B    *Cond `json:"b,omitempty"`
}

// ExprCtx allocates placeholders while printing.
type ExprCtx struct {
	r          *Rng
	Names      map[string]string // #alias -> attribute name
	Values     map[string]AV     // :placeholder -> value
	nameOf     map[string]string
	BareReserv bool // a reserved word was printed as a bare name (must be rejected)
	aliasAll   bool
}

func NewExprCtx(r *Rng) *ExprCtx {
	return &ExprCtx{r: r, Names: map[string]string{}, Values: map[string]AV{}, nameOf: map[string]string{}}
}

var reservedSample = map[string]bool{"NAME": true, "SIZE": true, "STATUS": true, "DATA": true, "VALUE": true, "KEY": true, "COUNT": true, "TYPE": true, "A": false}

func isSafeBare(name string) bool {
	if name == "" {
		return false
	}
	for i := 0; i < len(name); i++ {
		c := name[i]
		if !(c >= 'a' && c <= 'z' || c >= 'A' && c <= 'Z' || c >= '0' && c <= '9' || c == '_') {
			return false
		}
	}
	switch name {
	case "AND", "OR", "NOT", "BETWEEN", "IN", "SET", "REMOVE", "ADD", "DELETE":
		return false
	}
	return true
}

func (c *ExprCtx) name(n []byte) string {
	s := string(n)
	reserved := IsReservedUpper(strings.ToUpper(s))
	bare := isSafeBare(s) && !c.aliasAll
	if bare && reserved {
		// mostly alias reserved words; sometimes leave them bare on purpose
		if c.r.Chance(85) {
			bare = false
		} else {
			c.BareReserv = true
		}
	} else if bare && c.r.Chance(25) {
		bare = false
	}
	if bare {
		return s
	}
	if a, ok := c.nameOf[s]; ok {
		return a
	}
	a := fmt.Sprintf("#n%d", len(c.nameOf))
	c.nameOf[s] = a
	c.Names[a] = s
	return a
}

func (c *ExprCtx) value(v AV) string {
	p := fmt.Sprintf(":v%d", len(c.Values))
	c.Values[p] = v
	return p
}

func (c *ExprCtx) operand(o *Operand) string {
	switch o.Kind {
	case "val":
		return c.value(o.Val)
	case "size":
		return "size(" + c.path(o) + ")"
	}
	return c.path(o)
}

func (c *ExprCtx) path(o *Operand) string {
	var sb strings.Builder
	sb.WriteString(c.name(o.Root))
	for _, st := range o.Steps {
		if st.IsIdx {
			fmt.Fprintf(&sb, "[%d]", st.Idx)
		} else {
			sb.WriteString(".")
			sb.WriteString(c.name(st.Key))
		}
	}
	return sb.String()
}

func condPrec(k string) int {
	switch k {
	case "or":
		return 1
	case "and":
		return 2
	case "not":
		return 3
	}
	return 4
}

func (c *ExprCtx) sp() string {
	if c.r.Chance(10) {
		return pick(c.r, []string{"  ", "\t", "\n", " \r\n "})
	}
	return " "
}

// Print renders the condition with the fewest parentheses the grammar's binding
// strength (comparison > NOT > AND > OR) needs, plus a few redundant ones.
func (c *ExprCtx) Print(n *Cond, outer int) string {
	var s string
	switch n.K {
	case "cmp":
		s = c.operand(n.L) + c.sp() + n.Op + c.sp() + c.operand(n.R)
	case "between":
		s = c.operand(n.L) + c.sp() + "BETWEEN" + c.sp() + c.operand(n.R) + c.sp() + "AND" + c.sp() + c.operand(n.X)
	case "in":
		parts := []string{}
		for i := range n.Ins {
			parts = append(parts, c.operand(&n.Ins[i]))
		}
		s = c.operand(n.L) + c.sp() + "IN" + c.sp() + "(" + strings.Join(parts, ","+c.sp()) + ")"
	case "fn":
		parts := []string{}
		for i := range n.Args {
			parts = append(parts, c.operand(&n.Args[i]))
		}
		s = n.Fn + "(" + strings.Join(parts, ", ") + ")"
	case "not":
		s = "NOT" + c.sp() + c.Print(n.A, 3)
	case "and":
		s = c.Print(n.A, 2) + c.sp() + "AND" + c.sp() + c.Print(n.B, 3)
	case "or":
		s = c.Print(n.A, 1) + c.sp() + "OR" + c.sp() + c.Print(n.B, 2)
	}
	if condPrec(n.K) < outer || c.r.Chance(8) {
		return "(" + s + ")"
	}
	return s
}

// ---------- generation, aware of the item the condition will be evaluated on ----------

type CondGen struct {
	r    *Rng
	item Item
	o    ValOpts
	// operand shapes beyond what the evaluator supports (paths in IN/BETWEEN operand position …)
	Exotic bool
}

func (g *CondGen) pathTo(t string) *Operand {
	// pick an attribute (present or absent) preferably of type t
	cands := []Operand{}
	below := []Operand{} // nested members that are scalars (NULL included): a path may try to go on below them
	var walk func(root []byte, steps []Step, v AV, depth int)
	walk = func(root []byte, steps []Step, v AV, depth int) {
		if t == "" || v.T == t {
			cands = append(cands, Operand{Kind: "path", Root: root, Steps: append([]Step{}, steps...)})
		}
		if depth >= 1 && v.T != "L" && v.T != "M" {
			below = append(below, Operand{Kind: "path", Root: root, Steps: append([]Step{}, steps...)})
		}
		if depth >= 3 {
			return
		}
		switch v.T {
		case "L":
			for i, e := range v.L {
				walk(root, append(steps, Step{IsIdx: true, Idx: i}), e, depth+1)
			}
		case "M":
			for _, kv := range v.M {
				walk(root, append(steps, Step{Key: kv.K}), kv.V, depth+1)
			}
		}
	}
	for _, kv := range g.item {
		if len(kv.K) > 0 && kv.K[0] == ':' {
			continue // attributes named like value placeholders are bystanders only (see DESIGN, limits)
		}
		walk(kv.K, nil, kv.V, 0)
	}
	if len(below) > 0 && g.r.Chance(12) {
		// one step further than the document goes: names nothing, whatever the scalar is
		o := pick(g.r, below)
		if g.r.Bool() {
			o.Steps = append(o.Steps, Step{Key: []byte(pick(g.r, []string{"k", "owner", "x"}))})
		} else {
			o.Steps = append(o.Steps, Step{IsIdx: true, Idx: g.r.Intn(2)})
		}
		return &o
	}
	if len(cands) > 0 && g.r.Chance(80) {
		o := pick(g.r, cands)
		return &o
	}
	// absent attribute or a path that leaves the document
	switch g.r.Intn(4) {
	case 0:
		return &Operand{Kind: "path", Root: []byte(pick(g.r, []string{"nosuch", "zz", "s1", "n1", "m1", "l1"}))}
	case 1:
		return &Operand{Kind: "path", Root: []byte("l1"), Steps: []Step{{IsIdx: true, Idx: g.r.Intn(6)}}}
	case 2:
		return &Operand{Kind: "path", Root: []byte("m1"), Steps: []Step{{Key: []byte(pick(g.r, []string{"k", "nokey", "name"}))}}}
	default:
		return &Operand{Kind: "path", Root: []byte(pick(g.r, []string{"m1", "s1", "nosuch"})), Steps: []Step{{Key: []byte("k")}, {Key: []byte("x")}}}
	}
}

func (g *CondGen) lookup(o *Operand) (AV, bool) {
	v, ok := g.item.get(string(o.Root))
	if !ok {
		return AV{}, false
	}
	for _, st := range o.Steps {
		if st.IsIdx {
			if v.T != "L" || st.Idx >= len(v.L) {
				return AV{}, false
			}
			v = v.L[st.Idx]
		} else {
			if v.T != "M" {
				return AV{}, false
			}
			found := false
			for _, kv := range v.M {
				if string(kv.K) == string(st.Key) {
					v, found = kv.V, true
					break
				}
			}
			if !found {
				return AV{}, false
			}
		}
	}
	return v, true
}

// valNear produces a constant related to the attribute's current value so that
// comparisons are true about as often as false.
func (g *CondGen) valNear(p *Operand, wantT string) *Operand {
	cur, ok := g.lookup(p)
	if ok && g.r.Chance(45) && (wantT == "" || cur.T == wantT) {
		if g.r.Chance(35) {
			return &Operand{Kind: "val", Val: twinOf(g.r, cur)} // equal by value, written differently
		}
		return &Operand{Kind: "val", Val: cur}
	}
	t := wantT
	if t == "" {
		if ok && g.r.Chance(75) {
			t = cur.T
		} else {
			t = pick(g.r, allTypes)
		}
	}
	return &Operand{Kind: "val", Val: genOfType(g.r, t, 1, g.o)}
}

var cmpOps = []string{"=", "<>", "<", "<=", ">", ">="}

func (g *CondGen) atom() *Cond {
	if _, ok := g.item.get("z0"); ok && g.r.Chance(10) {
		z := &Operand{Kind: "val", Val: AV{T: "N", V: []byte(pick(g.r, zeroSpellings))}}
		p := &Operand{Kind: "path", Root: []byte("z0")}
		switch g.r.Intn(4) {
		case 0:
			return &Cond{K: "in", L: p, Ins: []Operand{{Kind: "val", Val: AV{T: "N", V: []byte("1")}}, *z}}
		case 1:
			return &Cond{K: "cmp", Op: pick(g.r, []string{"=", "<>", "<=", "<"}), L: p, R: z}
		case 2:
			return &Cond{K: "between", L: p, R: z, X: &Operand{Kind: "val", Val: AV{T: "N", V: []byte(pick(g.r, zeroSpellings))}}}
		default:
			return &Cond{K: "cmp", Op: "=", L: z, R: p}
		}
	}
	if _, ok := g.item.get("lz"); ok && g.r.Chance(10) {
		z := &Operand{Kind: "val", Val: AV{T: "N", V: []byte(pick(g.r, zeroSpellings))}}
		lz := &Operand{Kind: "path", Root: []byte("lz")}
		switch g.r.Intn(3) {
		case 0:
			return &Cond{K: "fn", Fn: "contains", Args: []Operand{*lz, *z}}
		case 1:
			return &Cond{K: "in", L: &Operand{Kind: "path", Root: []byte("lz"), Steps: []Step{{IsIdx: true, Idx: 0}}}, Ins: []Operand{*z}}
		default:
			lst := AV{T: "L", L: []AV{z.Val, S("a")}}
			return &Cond{K: "cmp", Op: pick(g.r, []string{"=", "<>"}), L: lz, R: &Operand{Kind: "val", Val: lst}}
		}
	}
	if g.r.Chance(4) {
		// two paths against one another where the item has neither (or just one): an operand without a value equals nothing,
		// not even another operand without a value
		absent := func() *Operand {
			return &Operand{Kind: "path", Root: []byte(pick(g.r, []string{"nosuch", "zz", "nosuch2", "gone"}))}
		}
		l, r := absent(), absent()
		if g.r.Chance(30) {
			r = g.pathTo("")
		}
		return &Cond{K: "cmp", Op: pick(g.r, []string{"=", "<>", "=", "<>", "<"}), L: l, R: r}
	}
	if g.r.Chance(8) {
		// structural equality: a set, list or map against the same value written differently (set elements and
		// map entries in another order, numerals respelt), or against a neighbour
		p := g.pathTo(pick(g.r, []string{"SS", "NS", "BS", "L", "M", "N"}))
		var rhs *Operand
		if cur, ok := g.lookup(p); ok && g.r.Chance(75) {
			rhs = &Operand{Kind: "val", Val: twinOf(g.r, cur)}
		} else {
			rhs = g.valNear(p, "")
		}
		switch g.r.Intn(4) {
		case 0:
			return &Cond{K: "in", L: p, Ins: []Operand{*g.valNear(p, ""), *rhs}}
		case 1:
			return &Cond{K: "cmp", Op: "<>", L: p, R: rhs}
		default:
			return &Cond{K: "cmp", Op: "=", L: p, R: rhs}
		}
	}
	switch g.r.Intn(10) {
	case 0, 1, 2, 3:
		p := g.pathTo(pick(g.r, []string{"", "S", "N", "B", "S", "N"}))
		var rhs *Operand
		if g.r.Chance(15) {
			rhs = g.pathTo("")
		} else {
			rhs = g.valNear(p, "")
		}
		l, r := p, rhs
		if g.r.Chance(10) {
			l, r = r, l
		}
		if g.r.Chance(12) {
			sp := g.pathTo(pick(g.r, []string{"S", "B", "S", "L", "SS", ""}))
			l = &Operand{Kind: "size", Root: sp.Root, Steps: sp.Steps}
			r = &Operand{Kind: "val", Val: AV{T: "N", V: []byte(pick(g.r, []string{"0", "1", "2", "3", "5"}))}}
		}
		return &Cond{K: "cmp", Op: pick(g.r, cmpOps), L: l, R: r}
	case 4:
		p := g.pathTo(pick(g.r, []string{"S", "N", "B", ""}))
		lo, hi := g.valNear(p, ""), g.valNear(p, "")
		if g.Exotic && g.r.Chance(30) {
			lo = g.pathTo("")
		}
		return &Cond{K: "between", L: p, R: lo, X: hi}
	case 5:
		p := g.pathTo("")
		n := 1 + g.r.Intn(3)
		ins := []Operand{}
		for i := 0; i < n; i++ {
			if g.Exotic && g.r.Chance(15) {
				ins = append(ins, *g.pathTo(""))
			} else {
				ins = append(ins, *g.valNear(p, ""))
			}
		}
		return &Cond{K: "in", L: p, Ins: ins}
	case 6:
		return &Cond{K: "fn", Fn: pick(g.r, []string{"attribute_exists", "attribute_not_exists"}), Args: []Operand{*g.pathTo("")}}
	case 7:
		p := g.pathTo("")
		t := pick(g.r, allTypes)
		if cur, ok := g.lookup(p); ok && g.r.Chance(50) {
			t = cur.T
		}
		tv := AV{T: "S", V: []byte(t)}
		if g.r.Chance(5) {
			tv = AV{T: "S", V: []byte("X")}
		}
		return &Cond{K: "fn", Fn: "attribute_type", Args: []Operand{*p, {Kind: "val", Val: tv}}}
	case 8:
		p := g.pathTo(pick(g.r, []string{"S", "B", "S", ""}))
		arg := g.valNear(p, "")
		if cur, ok := g.lookup(p); ok && (cur.T == "S" || cur.T == "B") && len(cur.V) > 0 && g.r.Chance(50) {
			arg = &Operand{Kind: "val", Val: AV{T: cur.T, V: cur.V[:1+g.r.Intn(len(cur.V))]}}
		}
		return &Cond{K: "fn", Fn: "begins_with", Args: []Operand{*p, *arg}}
	default:
		p := g.pathTo(pick(g.r, []string{"S", "SS", "NS", "BS", "L", "B", ""}))
		var arg *Operand
		cur, ok := g.lookup(p)
		switch {
		case ok && (cur.T == "SS" || cur.T == "NS" || cur.T == "BS") && len(cur.Set) > 0 && g.r.Chance(60):
			et := map[string]string{"SS": "S", "NS": "N", "BS": "B"}[cur.T]
			arg = &Operand{Kind: "val", Val: AV{T: et, V: pick(g.r, cur.Set)}}
			if g.r.Chance(35) {
				arg.Val = twinOf(g.r, arg.Val)
			}
		case ok && cur.T == "L" && len(cur.L) > 0 && g.r.Chance(60):
			arg = &Operand{Kind: "val", Val: pick(g.r, cur.L)}
			if g.r.Chance(35) {
				arg.Val = twinOf(g.r, arg.Val)
			}
		case ok && cur.T == "S" && len(cur.V) > 1 && g.r.Chance(60):
			arg = &Operand{Kind: "val", Val: AV{T: "S", V: cur.V[1:]}}
		default:
			arg = g.valNear(p, pick(g.r, []string{"S", "N", "B", ""}))
		}
		return &Cond{K: "fn", Fn: "contains", Args: []Operand{*p, *arg}}
	}
}

func (g *CondGen) Gen(depth int) *Cond {
	if depth <= 0 || g.r.Chance(35) {
		return g.atom()
	}
	switch g.r.Intn(5) {
	case 0:
		return &Cond{K: "not", A: g.Gen(depth - 1)}
	case 1, 2:
		return &Cond{K: "and", A: g.Gen(depth - 1), B: g.Gen(depth - 1)}
	default:
		return &Cond{K: "or", A: g.Gen(depth - 1), B: g.Gen(depth - 1)}
	}
}

func namesList(m map[string]string) [][2]string {
	out := [][2]string{}
	for k, v := range m {
		out = append(out, [2]string{hx([]byte(k)), hx([]byte(v))})
	}
	sortPairs(out)
	return out
}

func valuesItem(m map[string]AV) Item {
	it := Item{}
	for k, v := range m {
		it = append(it, KV{[]byte(k), v})
	}
	return canonKeysOnly(it)
}
