package main

import (
	"bytes"
	"encoding/hex"
	"encoding/json"
	"sort"

	v2types "github.com/aws/aws-sdk-go-v2/service/dynamodb/types"
	v1 "github.com/aws/aws-sdk-go/service/dynamodb"
	"github.com/truora/minidyn/types"
)

// AV is the abstract attribute value shared with the Lean driver.
type AV struct {
	T    string // S N B BOOL NULL L M SS NS BS
	V    []byte // S, N (numeral text), B
	Bool bool
	L    []AV
	M    []KV
	Set  [][]byte
}

type KV struct {
	K []byte
	V AV
}

type Item []KV

func hx(b []byte) string { return hex.EncodeToString(b) }

func (a AV) MarshalJSON() ([]byte, error) {
	var v interface{}
	switch a.T {
	case "S", "N", "B":
		v = hx(a.V)
	case "BOOL":
		v = a.Bool
	case "NULL":
		v = true
	case "L":
		l := a.L
		if l == nil {
			l = []AV{}
		}
		v = l
	case "M":
		v = Item(a.M)
	case "SS", "NS", "BS":
		s := make([]string, 0, len(a.Set))
		for _, x := range a.Set {
			s = append(s, hx(x))
		}
		v = s
	default:
		v = nil
	}
	return json.Marshal(map[string]interface{}{a.T: v})
}

func (it Item) MarshalJSON() ([]byte, error) {
	out := make([][2]interface{}, 0, len(it))
	for _, kv := range it {
		out = append(out, [2]interface{}{hx(kv.K), kv.V})
	}
	return json.Marshal(out)
}

// canonical form: attributes and map entries sorted by name, set members sorted
func canonAV(a AV) AV {
	switch a.T {
	case "L":
		l := make([]AV, len(a.L))
		for i, x := range a.L {
			l[i] = canonAV(x)
		}
		a.L = l
	case "M":
		a.M = canonItem(a.M)
	case "SS", "NS", "BS":
		s := append([][]byte{}, a.Set...)
		sort.Slice(s, func(i, j int) bool { return bytes.Compare(s[i], s[j]) < 0 })
		a.Set = s
	}
	return a
}

func canonItem(it Item) Item {
	out := make(Item, len(it))
	for i, kv := range it {
		out[i] = KV{kv.K, canonAV(kv.V)}
	}
	sort.SliceStable(out, func(i, j int) bool { return bytes.Compare(out[i].K, out[j].K) < 0 })
	return out
}

// observations are snapshots: they never share memory with what the client returned
func copyBytes2(bs [][]byte) [][]byte {
	out := make([][]byte, len(bs))
	for i, b := range bs {
		out[i] = append([]byte{}, b...)
	}
	return out
}

func S(s string) AV  { return AV{T: "S", V: []byte(s)} }
func Nn(s string) AV { return AV{T: "N", V: []byte(s)} }
func Bb(s string) AV { return AV{T: "B", V: []byte(s)} }

// ---------- internal types.Item ----------

func strp(b []byte) *string { s := string(b); return &s }

func toTypes(a AV) *types.Item {
	switch a.T {
	case "S":
		return &types.Item{S: strp(a.V)}
	case "N":
		return &types.Item{N: strp(a.V)}
	case "B":
		return &types.Item{B: append([]byte{}, a.V...)}
	case "BOOL":
		b := a.Bool
		return &types.Item{BOOL: &b}
	case "NULL":
		t := true
		return &types.Item{NULL: &t}
	case "L":
		l := make([]*types.Item, 0, len(a.L))
		for _, x := range a.L {
			l = append(l, toTypes(x))
		}
		return &types.Item{L: l}
	case "M":
		return &types.Item{M: toTypesItem(a.M)}
	case "SS":
		s := make([]*string, 0, len(a.Set))
		for _, x := range a.Set {
			s = append(s, strp(x))
		}
		return &types.Item{SS: s}
	case "NS":
		s := make([]*string, 0, len(a.Set))
		for _, x := range a.Set {
			s = append(s, strp(x))
		}
		return &types.Item{NS: s}
	case "BS":
		s := make([][]byte, 0, len(a.Set))
		for _, x := range a.Set {
			s = append(s, append([]byte{}, x...))
		}
		return &types.Item{BS: s}
	}
	return &types.Item{}
}

func toTypesItem(it Item) map[string]*types.Item {
	m := make(map[string]*types.Item, len(it))
	for _, kv := range it {
		m[string(kv.K)] = toTypes(kv.V)
	}
	return m
}

// fromTypes reads back an internal item; "?" marks a value with no (or an
// unexpected combination of) fields, which the model never produces.
func fromTypes(t *types.Item) AV {
	if t == nil {
		return AV{T: "?"}
	}
	switch {
	case t.S != nil:
		return AV{T: "S", V: []byte(*t.S)}
	case t.N != nil:
		return AV{T: "N", V: []byte(*t.N)}
	case t.BOOL != nil:
		return AV{T: "BOOL", Bool: *t.BOOL}
	case t.NULL != nil:
		if *t.NULL {
			return AV{T: "NULL"}
		}
		return AV{T: "?"}
	case t.L != nil:
		l := make([]AV, 0, len(t.L))
		for _, x := range t.L {
			l = append(l, fromTypes(x))
		}
		return AV{T: "L", L: l}
	case t.M != nil:
		return AV{T: "M", M: fromTypesItem(t.M)}
	case t.SS != nil:
		return AV{T: "SS", Set: strs(t.SS)}
	case t.NS != nil:
		return AV{T: "NS", Set: strs(t.NS)}
	case t.BS != nil:
		s := make([][]byte, 0, len(t.BS))
		for _, x := range t.BS {
			s = append(s, x)
		}
		return AV{T: "BS", Set: s}
	case t.B != nil:
		return AV{T: "B", V: append([]byte{}, t.B...)}
	}
	return AV{T: "?"}
}

func strs(ss []*string) [][]byte {
	out := make([][]byte, 0, len(ss))
	for _, s := range ss {
		if s == nil {
			out = append(out, []byte("<nil>"))
			continue
		}
		out = append(out, []byte(*s))
	}
	return out
}

func fromTypesItem(m map[string]*types.Item) Item {
	it := make(Item, 0, len(m))
	for k, v := range m {
		it = append(it, KV{[]byte(k), fromTypes(v)})
	}
	return canonItem(it)
}

// ---------- SDK v2 ----------

func toV2(a AV) v2types.AttributeValue {
	switch a.T {
	case "S":
		return &v2types.AttributeValueMemberS{Value: string(a.V)}
	case "N":
		return &v2types.AttributeValueMemberN{Value: string(a.V)}
	case "B":
		return &v2types.AttributeValueMemberB{Value: append([]byte{}, a.V...)}
	case "BOOL":
		return &v2types.AttributeValueMemberBOOL{Value: a.Bool}
	case "NULL":
		return &v2types.AttributeValueMemberNULL{Value: true}
	case "L":
		l := make([]v2types.AttributeValue, 0, len(a.L))
		for _, x := range a.L {
			l = append(l, toV2(x))
		}
		return &v2types.AttributeValueMemberL{Value: l}
	case "M":
		return &v2types.AttributeValueMemberM{Value: toV2Item(a.M)}
	case "SS", "NS":
		s := make([]string, 0, len(a.Set))
		for _, x := range a.Set {
			s = append(s, string(x))
		}
		if a.T == "SS" {
			return &v2types.AttributeValueMemberSS{Value: s}
		}
		return &v2types.AttributeValueMemberNS{Value: s}
	case "BS":
		s := make([][]byte, 0, len(a.Set))
		for _, x := range a.Set {
			s = append(s, append([]byte{}, x...))
		}
		return &v2types.AttributeValueMemberBS{Value: s}
	}
	return nil
}

func toV2Item(it Item) map[string]v2types.AttributeValue {
	if it == nil {
		return nil
	}
	m := make(map[string]v2types.AttributeValue, len(it))
	for _, kv := range it {
		m[string(kv.K)] = toV2(kv.V)
	}
	return m
}

func fromV2(v v2types.AttributeValue) AV {
	switch x := v.(type) {
	case *v2types.AttributeValueMemberS:
		return AV{T: "S", V: []byte(x.Value)}
	case *v2types.AttributeValueMemberN:
		return AV{T: "N", V: []byte(x.Value)}
	case *v2types.AttributeValueMemberB:
		return AV{T: "B", V: append([]byte{}, x.Value...)}
	case *v2types.AttributeValueMemberBOOL:
		return AV{T: "BOOL", Bool: x.Value}
	case *v2types.AttributeValueMemberNULL:
		if x.Value {
			return AV{T: "NULL"}
		}
		return AV{T: "?"}
	case *v2types.AttributeValueMemberL:
		l := make([]AV, 0, len(x.Value))
		for _, e := range x.Value {
			l = append(l, fromV2(e))
		}
		return AV{T: "L", L: l}
	case *v2types.AttributeValueMemberM:
		return AV{T: "M", M: fromV2Item(x.Value)}
	case *v2types.AttributeValueMemberSS:
		return AV{T: "SS", Set: bytesOf(x.Value)}
	case *v2types.AttributeValueMemberNS:
		return AV{T: "NS", Set: bytesOf(x.Value)}
	case *v2types.AttributeValueMemberBS:
		return AV{T: "BS", Set: copyBytes2(x.Value)}
	}
	return AV{T: "?"}
}

func bytesOf(ss []string) [][]byte {
	out := make([][]byte, 0, len(ss))
	for _, s := range ss {
		out = append(out, []byte(s))
	}
	return out
}

func fromV2Item(m map[string]v2types.AttributeValue) Item {
	it := make(Item, 0, len(m))
	for k, v := range m {
		it = append(it, KV{[]byte(k), fromV2(v)})
	}
	return canonItem(it)
}

// ---------- SDK v1 ----------

func toV1(a AV) *v1.AttributeValue {
	switch a.T {
	case "S":
		return &v1.AttributeValue{S: strp(a.V)}
	case "N":
		return &v1.AttributeValue{N: strp(a.V)}
	case "B":
		return &v1.AttributeValue{B: append([]byte{}, a.V...)}
	case "BOOL":
		b := a.Bool
		return &v1.AttributeValue{BOOL: &b}
	case "NULL":
		t := true
		return &v1.AttributeValue{NULL: &t}
	case "L":
		l := make([]*v1.AttributeValue, 0, len(a.L))
		for _, x := range a.L {
			l = append(l, toV1(x))
		}
		return &v1.AttributeValue{L: l}
	case "M":
		m := toV1Item(a.M)
		if m == nil {
			m = map[string]*v1.AttributeValue{}
		}
		return &v1.AttributeValue{M: m}
	case "SS", "NS":
		s := make([]*string, 0, len(a.Set))
		for _, x := range a.Set {
			s = append(s, strp(x))
		}
		if a.T == "SS" {
			return &v1.AttributeValue{SS: s}
		}
		return &v1.AttributeValue{NS: s}
	case "BS":
		s := make([][]byte, 0, len(a.Set))
		for _, x := range a.Set {
			s = append(s, append([]byte{}, x...))
		}
		return &v1.AttributeValue{BS: s}
	}
	return nil
}

func toV1Item(it Item) map[string]*v1.AttributeValue {
	if it == nil {
		return nil
	}
	m := make(map[string]*v1.AttributeValue, len(it))
	for _, kv := range it {
		m[string(kv.K)] = toV1(kv.V)
	}
	return m
}

func fromV1(t *v1.AttributeValue) AV {
	if t == nil {
		return AV{T: "?"}
	}
	switch {
	case t.S != nil:
		return AV{T: "S", V: []byte(*t.S)}
	case t.N != nil:
		return AV{T: "N", V: []byte(*t.N)}
	case t.BOOL != nil:
		return AV{T: "BOOL", Bool: *t.BOOL}
	case t.NULL != nil:
		if *t.NULL {
			return AV{T: "NULL"}
		}
		return AV{T: "?"}
	case t.L != nil:
		l := make([]AV, 0, len(t.L))
		for _, x := range t.L {
			l = append(l, fromV1(x))
		}
		return AV{T: "L", L: l}
	case t.M != nil:
		return AV{T: "M", M: fromV1Item(t.M)}
	case t.SS != nil:
		return AV{T: "SS", Set: strs(t.SS)}
	case t.NS != nil:
		return AV{T: "NS", Set: strs(t.NS)}
	case t.BS != nil:
		return AV{T: "BS", Set: copyBytes2(t.BS)}
	case t.B != nil:
		return AV{T: "B", V: append([]byte{}, t.B...)}
	}
	return AV{T: "?"}
}

func fromV1Item(m map[string]*v1.AttributeValue) Item {
	it := make(Item, 0, len(m))
	for k, v := range m {
		it = append(it, KV{[]byte(k), fromV1(v)})
	}
	return canonItem(it)
}
