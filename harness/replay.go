package main

import (
	"bufio"
	"encoding/hex"
	"encoding/json"
	"fmt"
	"os"
)

// ---------- reading cases back (replay of corpus cases and of reported violations) ----------

func unhex(s string) []byte {
	b, err := hex.DecodeString(s)
	if err != nil {
		panic(fmt.Sprintf("bad hex %q", s))
	}
	return b
}

func (h *HexS) UnmarshalJSON(b []byte) error {
	var s string
	if err := json.Unmarshal(b, &s); err != nil {
		return err
	}
	*h = HexS(unhex(s))
	return nil
}

func (a *AV) UnmarshalJSON(b []byte) error {
	var m map[string]json.RawMessage
	if err := json.Unmarshal(b, &m); err != nil {
		return err
	}
	for t, raw := range m {
		a.T = t
		switch t {
		case "S", "N", "B":
			var s string
			if err := json.Unmarshal(raw, &s); err != nil {
				return err
			}
			a.V = unhex(s)
		case "BOOL":
			return json.Unmarshal(raw, &a.Bool)
		case "NULL":
		case "L":
			a.L = []AV{}
			return json.Unmarshal(raw, &a.L)
		case "M":
			var it Item
			if err := json.Unmarshal(raw, &it); err != nil {
				return err
			}
			a.M = it
		case "SS", "NS", "BS":
			var ss []string
			if err := json.Unmarshal(raw, &ss); err != nil {
				return err
			}
			a.Set = [][]byte{}
			for _, s := range ss {
				a.Set = append(a.Set, unhex(s))
			}
		}
	}
	return nil
}

func (it *Item) UnmarshalJSON(b []byte) error {
	var raw [][2]json.RawMessage
	if err := json.Unmarshal(b, &raw); err != nil {
		return err
	}
	out := Item{}
	for _, p := range raw {
		var k string
		if err := json.Unmarshal(p[0], &k); err != nil {
			return err
		}
		var v AV
		if err := json.Unmarshal(p[1], &v); err != nil {
			return err
		}
		out = append(out, KV{unhex(k), v})
	}
	*it = out
	return nil
}

func (t *TableReqs) UnmarshalJSON(b []byte) error {
	var raw [2]json.RawMessage
	if err := json.Unmarshal(b, &raw); err != nil {
		return err
	}
	if err := json.Unmarshal(raw[0], &t.Table); err != nil {
		return err
	}
	return json.Unmarshal(raw[1], &t.Reqs)
}

func (t *TableKeys) UnmarshalJSON(b []byte) error {
	var raw [2]json.RawMessage
	if err := json.Unmarshal(b, &raw); err != nil {
		return err
	}
	if err := json.Unmarshal(raw[0], &t.Table); err != nil {
		return err
	}
	return json.Unmarshal(raw[1], &t.Keys)
}

// trees are only passed through on replay
func (c *Cond) UnmarshalJSON(b []byte) error { return nil }

type rawCase struct {
	Kind   string          `json:"kind"`
	Expr   string          `json:"expr"`
	Item   Item            `json:"item"`
	Names  [][2]string     `json:"names"`
	Values Item            `json:"values"`
	Ops    []*Op           `json:"ops"`
	Rest   json.RawMessage `json:"-"`
}

func namesMap(l [][2]string) map[string]string {
	m := map[string]string{}
	for _, p := range l {
		m[string(unhex(p[0]))] = string(unhex(p[1]))
	}
	return m
}

func valuesMap(it Item) map[string]AV {
	m := map[string]AV{}
	for _, kv := range it {
		m[string(kv.K)] = kv.V
	}
	return m
}

// replayCases re-runs the implementation on the cases of a file and emits them with the
// fresh implementation outcome (every other field is passed through unchanged).
func replayCases(path string) {
	f, err := os.Open(path)
	if err != nil {
		panic(err)
	}
	defer f.Close()
	sc := bufio.NewScanner(f)
	sc.Buffer(make([]byte, 1<<20), 1<<28)
	for sc.Scan() {
		line := sc.Bytes()
		if len(line) == 0 {
			continue
		}
		var rc rawCase
		if err := json.Unmarshal(line, &rc); err != nil {
			panic(fmt.Sprintf("replay: %v", err))
		}
		var all map[string]interface{}
		json.Unmarshal(line, &all)
		c := Case{}
		for k, v := range all {
			c[k] = v
		}
		switch rc.Kind {
		case "match":
			c["impl"] = runMatch(string(unhex(rc.Expr)), rc.Item, namesMap(rc.Names), valuesMap(rc.Values))
		case "update":
			c["impl"] = runUpdate(string(unhex(rc.Expr)), rc.Item, namesMap(rc.Names), valuesMap(rc.Values))
		case "hist":
			for _, op := range rc.Ops {
				op.names = namesMap(op.Names)
				op.values = valuesMap(op.Values)
				if op.Op == "pages" {
					// the primary key attributes travel in pkAttrs
					var raw map[string]interface{}
					_ = raw
				}
			}
			fillPkAttrs(rc.Ops)
			a, b := runHistory(rc.Ops)
			c["impl"] = Outcome{"v1": a["outs"], "v2": b["outs"]}
		default:
			continue
		}
		keep := caseID
		emit(c)
		if id, ok := all["id"]; ok {
			_ = id
		}
		_ = keep
	}
}

// fillPkAttrs recovers the primary key attribute names of each table from the createTable ops
func fillPkAttrs(ops []*Op) {
	pk := map[string][]string{}
	for _, op := range ops {
		if op.Op == "createTable" && op.Key != nil {
			a := []string{string(op.Key.Hash[0])}
			if op.Key.Range != nil {
				a = append(a, string(op.Key.Range[0]))
			}
			if _, seen := pk[string(op.Table)]; !seen {
				pk[string(op.Table)] = a
			}
		}
		if op.Op == "pages" {
			op.pkAttrs = pk[string(op.Table)]
		}
	}
}
