package main

import (
	"strings"
)

// ---------- strings that are NOT sentences of the grammar (C09), plus token soup / raw bytes ----------

var tokenAlphabet = []string{"a", "b", "n1", "s1", "#n0", ":v0", ":v1", "=", "<>", "<", "<=", ">", ">=", "(", ")", ",", ".", "[", "]", "0", "1",
	"AND", "OR", "NOT", "BETWEEN", "IN", "SET", "REMOVE", "ADD", "DELETE", "+", "-", "attribute_exists", "size", "begins_with", "if_not_exists", "list_append", "and", "or", "not", "!", "@"}

type garbage struct {
	text    string
	class   string
	certain bool // certainly not a sentence
}

// mutate a well-formed condition into a non-sentence
func mutateCond(r *Rng, valid string, other string) garbage {
	switch r.Intn(15) {
	case 14: // a function called with no operand at all, in every position an operand or a condition can take
		f := pick(r, []string{"size", "attribute_exists", "begins_with", "contains", "attribute_type", "attribute_not_exists"})
		switch r.Intn(6) {
		case 0:
			return garbage{f + "() BETWEEN :v0 AND :v1", "zero-operands", true}
		case 1:
			return garbage{pick(r, []string{"n1", "nosuch", ":v0"}) + " IN (:v0, " + f + "())", "zero-operands", true}
		case 2:
			return garbage{f + "().b = :v0", "zero-operands", true}
		case 3:
			return garbage{f + "()[0] = :v0", "zero-operands", true}
		case 4:
			return garbage{"(" + valid + ") AND " + f + "()", "zero-operands", true}
		default:
			return garbage{f + "() " + pick(r, []string{"=", "<>", "<"}) + " :v0", "zero-operands", true}
		}
	case 11: // a member of an IN list or a BETWEEN bound that is not an operand, on an attribute the item may lack
		// ... or on a left operand that equals the member before the bad one (":v0 IN (:v0, bad)"): a match does not
		// make the rest of the list well-formed
		left := pick(r, []string{"nosuch", "b", "n1", "m1.nokey", "l1[7]", ":v0", ":v0"})
		bad := pick(r, []string{"a = :v0", "NOT b", "size(b)", "b AND n1", "attribute_exists(b)", "b.c = :v0", "NOT :v0", ":v0 = :v0"})
		if r.Chance(70) {
			return garbage{left + " IN (:v0, " + bad + ")", "in-operand", true}
		}
		return garbage{"NOT (" + left + " IN (" + bad + ", :v1))", "in-operand", true}
	case 12, 13: // an unknown byte at the very beginning or the very end
		// ... including the bytes that other definitions of "white space" would skip (vertical tab, form feed, NEL, NBSP)
		ch := pick(r, []string{"\x00", "\xff", "!", "\x80", "\x7f", "\x01", "\v", "\f", "\x85", "\xa0", "\v", "\xa0"})
		switch r.Intn(5) {
		case 0, 1:
			return garbage{valid + ch, "unknown-char-edge", true}
		case 2:
			return garbage{ch + valid, "unknown-char-edge", true}
		}
		// in place of a blank between two tokens
		if i := strings.Index(valid, " "); i > 0 {
			return garbage{valid[:i] + ch + valid[i+1:], "unknown-char-inside", true}
		}
		return garbage{valid + ch, "unknown-char-edge", true}
	case 9, 10:
		// an operand where a condition is required, next to a well-formed condition: the verdict must not
		// depend on whether the item makes the well-formed side decide the connective
		bad := pick(r, []string{"NOT b", "b", "(b AND n1)", "size(b)", ":v0", "NOT (b)", "b AND n1", "NOT n1", "flag", "(s1)", "NOT :v1"})
		conn := pick(r, []string{" OR ", " AND "})
		if r.Chance(50) {
			return garbage{"(" + valid + ")" + conn + bad, "operand-as-condition", true}
		}
		return garbage{bad + conn + "(" + valid + ")", "operand-as-condition", true}
	case 0:
		return garbage{valid + " " + pick(r, []string{")", "AND", "OR", "zz", ":v0", "= :v0", "(", "NOT", ",", "]", "BETWEEN"}), "trailing", true}
	case 1:
		return garbage{valid + " " + pick(r, []string{"AND", "OR", "AND NOT", "="}) + " ", "dangling", true}
	case 2:
		if i := strings.LastIndex(valid, ")"); i >= 0 {
			return garbage{valid[:i] + valid[i+1:], "unbalanced", true}
		}
		return garbage{"(" + valid, "unbalanced", true}
	case 3:
		return garbage{"(" + valid, "unbalanced", true}
	case 4:
		pos := r.Intn(len(valid) + 1)
		return garbage{valid[:pos] + pick(r, []string{"!", "@", "$", "%", "{", "}", "\x00", "\xff", "?", "&", "|", "\"", "'", ";"}) + valid[pos:], "unknown-char", false}
	case 5:
		low := valid
		changed := false
		for _, kw := range []string{"AND", "OR", "NOT", "BETWEEN", "IN"} {
			if strings.Contains(low, " "+kw+" ") {
				low = strings.Replace(low, " "+kw+" ", " "+strings.ToLower(kw)+" ", 1)
				changed = true
				break
			}
			if strings.HasPrefix(low, kw+" ") {
				low = strings.ToLower(kw) + low[len(kw):]
				changed = true
				break
			}
		}
		if !changed {
			low = valid + " and " + other
		}
		return garbage{low, "lowercase-keyword", true}
	case 6:
		return garbage{valid + " " + other, "juxtaposed", true}
	case 7:
		for _, op := range []string{" = ", " <> ", " < ", " AND ", " OR "} {
			if strings.Contains(valid, op) {
				return garbage{strings.Replace(valid, op, op+strings.TrimSpace(op)+" ", 1), "double-operator", true}
			}
		}
		return garbage{"= " + valid, "double-operator", true}
	default:
		return garbage{pick(r, []string{"", " ", "\t\n", "()", "( )", "AND", "NOT", "=", ",", "a", "a b", "a.b", ":v0", "a =", "NOT a", "a AND b"}), "degenerate", true}
	}
}

func mutateUpdate(r *Rng, valid string) garbage {
	switch r.Intn(11) {
	case 10: // a function called with no operand at all
		f := pick(r, []string{"if_not_exists", "list_append", "size"})
		switch r.Intn(4) {
		case 0:
			return garbage{"SET a = " + f + "()", "zero-operands", true}
		case 1:
			return garbage{"SET a = " + f + "().b", "zero-operands", true}
		case 2:
			return garbage{"SET a = :v0 + " + f + "()", "zero-operands", true}
		default:
			return garbage{"SET " + f + "() = :v0", "zero-operands", true}
		}
	case 8, 9: // an unknown byte at the very beginning or the very end
		// ... including the bytes that other definitions of "white space" would skip (vertical tab, form feed, NEL, NBSP)
		ch := pick(r, []string{"\x00", "\xff", "!", "\x80", "\x7f", "\x01", "\v", "\f", "\x85", "\xa0", "\v", "\xa0"})
		switch r.Intn(5) {
		case 0, 1:
			return garbage{valid + ch, "unknown-char-edge", true}
		case 2:
			return garbage{ch + valid, "unknown-char-edge", true}
		}
		// in place of a blank between two tokens
		if i := strings.Index(valid, " "); i > 0 {
			return garbage{valid[:i] + ch + valid[i+1:], "unknown-char-inside", true}
		}
		return garbage{valid + ch, "unknown-char-edge", true}
	case 0:
		return garbage{valid + pick(r, []string{",", " ,", " =", " )", " zz", " :v0 :v1"}), "trailing", true}
	case 1:
		kw := strings.SplitN(valid, " ", 2)[0]
		return garbage{valid + " " + kw + " zz = :v0", "repeated-clause", kw == "SET" || true}
	case 2:
		return garbage{pick(r, []string{"SET", "REMOVE", "ADD", "DELETE", "SET a", "SET a =", "ADD a", "DELETE a", "SET a = :v0,", "SET = :v0", "REMOVE ,a", "SET a :v0"}), "incomplete", true}
	case 3:
		return garbage{pick(r, []string{"a = :v0", "FOO a :v0", "set a = :v0", "Set a = :v0", "UPDATE a = :v0", "a", ":v0", "", "  "}), "no-clause", true}
	case 4:
		pos := r.Intn(len(valid) + 1)
		return garbage{valid[:pos] + pick(r, []string{"!", "@", "$", "\x00", "\xff", "{", ";"}) + valid[pos:], "unknown-char", false}
	case 5:
		return garbage{strings.Replace(valid, " = ", " = = ", 1) + " ", "double-operator", strings.Contains(valid, " = ")}
	case 6:
		return garbage{"(" + valid, "unbalanced", true}
	default:
		return garbage{valid + " AND a = :v0", "condition-in-update", true}
	}
}

func soup(r *Rng) string {
	n := 1 + r.Intn(9)
	parts := make([]string, n)
	for i := range parts {
		parts[i] = pick(r, tokenAlphabet)
	}
	return strings.Join(parts, pick(r, []string{" ", " ", ""}))
}

func rawBytes(r *Rng) string {
	n := r.Intn(64)
	if r.Chance(5) {
		n = 1000 + r.Intn(3096)
	}
	b := make([]byte, n)
	for i := range b {
		if r.Chance(70) {
			b[i] = pick(r, []byte("abn1 :#=<>(),.[]ANDORT+-_0"))
		} else {
			b[i] = byte(r.Intn(256))
		}
	}
	return string(b)
}

func genGarbageCases(r *Rng, n int) {
	for i := 0; i < n; i++ {
		cr := r.Fork()
		o := ValOpts{ExactNums: true, MaxDepth: 2}
		item := genItem(cr, o)
		ctx := NewExprCtx(cr)
		ctx.aliasAll = false
		isUpdate := cr.Chance(35)
		var g garbage
		if isUpdate {
			ug := &UpdGen{r: cr, item: item, o: o}
			valid := ctx.PrintUpdate(ug.Gen())
			switch cr.Intn(10) {
			case 0:
				g = garbage{soup(cr), "soup", false}
			case 1:
				g = garbage{rawBytes(cr), "bytes", false}
			default:
				g = mutateUpdate(cr, valid)
			}
		} else {
			cg := &CondGen{r: cr, item: item, o: o}
			valid := ctx.Print(cg.Gen(cr.Intn(3)), 0)
			other := ctx.Print(cg.Gen(0), 0)
			switch cr.Intn(10) {
			case 0:
				g = garbage{soup(cr), "soup", false}
			case 1:
				g = garbage{rawBytes(cr), "bytes", false}
			default:
				g = mutateCond(cr, valid, other)
			}
		}
		// placeholders that the token alphabet may mention
		for _, p := range []string{":v0", ":v1"} {
			if _, ok := ctx.Values[p]; !ok && strings.Contains(g.text, p) {
				ctx.Values[p] = S("x")
			}
		}
		if _, ok := ctx.Names["#n0"]; !ok && strings.Contains(g.text, "#n0") {
			ctx.Names["#n0"] = "s1"
		}
		kind := "match"
		var impl Outcome
		var cl []pokeViolation
		if isUpdate {
			kind = "update"
			impl = runUpdate(g.text, item, ctx.Names, ctx.Values)
			cl = clientsUpdate(g.text, item, ctx.Names, ctx.Values, impl, false)
		} else {
			impl = runMatch(g.text, item, ctx.Names, ctx.Values)
			cl = clientsMatch(g.text, item, ctx.Names, ctx.Values, impl, false)
		}
		emit(Case{"kind": kind, "expr": hx([]byte(g.text)), "text": g.text, "item": canonKeysOnly(item), "names": namesList(ctx.Names),
			"values": valuesItem(ctx.Values), "garbage": g.certain, "garbageClass": g.class, "impl": impl, "clients": cl})
	}
}

// every reserved word of the table in every bare-name position, three letter cases (C16)
func genReservedCases() {
	positions := []struct{ kind, tmpl string }{
		{"match", "%s = :v"}, {"match", ":v = %s"}, {"match", "attribute_exists(%s)"}, {"match", "%s BETWEEN :v AND :v"},
		{"match", ":v BETWEEN %s AND :v"}, {"match", "%s IN (:v)"}, {"match", ":v IN (%s)"}, {"match", "%s.k = :v"}, {"match", "%s[0] = :v"},
		{"match", "NOT %s = :v"}, {"match", "size(%s) > :n"}, {"match", "begins_with(%s, :v)"},
		// positions next to an operand that could decide the expression early: the word is still a syntax matter
		{"match", "nosuch IN (:v, %s)"}, {"match", "zz IN (:y, %s)"}, {"match", "zz = :y OR %s = :v"}, {"match", "zz = :v AND %s = :v"},
		{"match", "nosuch BETWEEN %s AND :v"}, {"match", "attribute_exists(zz) OR attribute_exists(%s)"},
		{"update", "SET %s = :v"}, {"update", "SET zz = %s"}, {"update", "REMOVE %s"}, {"update", "ADD %s :n"}, {"update", "DELETE %s :ss"},
		{"update", "SET zz = if_not_exists(%s, :v)"}, {"update", "SET %s[0] = :v"}, {"update", "SET zz = %s + :n"},
	}
	words := reservedWordList()
	vals := map[string]AV{":v": S("x"), ":y": S("y"), ":n": Nn("1"), ":ss": {T: "SS", Set: [][]byte{[]byte("x")}}}
	for _, w := range words {
		for ci, cw := range []string{w, strings.ToLower(w), strings.ToUpper(w[:1]) + strings.ToLower(w[1:])} {
			for pi, p := range positions {
				// the full sweep would be 573 x 3 x 20 cases; every word gets every position in one case
				// and every case in one position (rotating), which keeps the sweep exhaustive per axis
				if ci != 0 && (len(w)+pi)%len(positions) != ci {
					continue
				}
				text := strings.Replace(p.tmpl, "%s", cw, 1)
				// the attribute named like the word has the shape the position walks into, so that nothing but the
				// word itself can make the expression fail
				wv := S("x")
				if strings.Contains(p.tmpl, "%s.k") {
					wv = AV{T: "M", M: []KV{{[]byte("k"), S("x")}}}
				} else if strings.Contains(p.tmpl, "%s[0]") {
					wv = AV{T: "L", L: []AV{S("x")}}
				}
				item := Item{{[]byte(strings.ToLower(w)), wv}, {[]byte(w), wv}, {[]byte(cw), wv}, {[]byte("zz"), S("y")}}
				used := map[string]AV{}
				for k, v := range vals {
					if strings.Contains(text, k) {
						used[k] = v
					}
				}
				var impl Outcome
				if p.kind == "update" {
					impl = runUpdate(text, item, nil, used)
				} else {
					impl = runMatch(text, item, nil, used)
				}
				emit(Case{"kind": p.kind, "expr": hx([]byte(text)), "text": text, "item": canonKeysOnly(item), "names": [][2]string{},
					"values": valuesItem(used), "bareReserved": true, "word": w, "impl": impl})
			}
		}
	}
}
