package main

// splitmix64: every random choice of a run derives from one seed, so a
// disagreement replays exactly.
type Rng struct{ s uint64 }

// NewRng: the state for seed 1 is what it has always been (the recorded results of the default runs stay valid); every other
// seed is passed through the finaliser first, so that two seeds give unrelated streams (with the plain multiple of the
// increment the stream of seed k+1 was the stream of seed k moved on by one draw: the sweeps with other seeds saw nearly the same cases)
func NewRng(seed uint64) *Rng {
	if seed == 1 {
		return &Rng{s: seed*0x9E3779B97F4A7C15 + 0x1234567}
	}
	z := seed + 0x6A09E667F3BCC909
	z = (z ^ (z >> 30)) * 0xBF58476D1CE4E5B9
	z = (z ^ (z >> 27)) * 0x94D049BB133111EB
	return &Rng{s: z ^ (z >> 31)}
}

func (r *Rng) Next() uint64 {
	r.s += 0x9E3779B97F4A7C15
	z := r.s
	z = (z ^ (z >> 30)) * 0xBF58476D1CE4E5B9
	z = (z ^ (z >> 27)) * 0x94D049BB133111EB
	return z ^ (z >> 31)
}

func (r *Rng) Intn(n int) int {
	if n <= 0 {
		return 0
	}
	return int(r.Next() % uint64(n))
}

func (r *Rng) Bool() bool        { return r.Next()&1 == 1 }
func (r *Rng) Chance(p int) bool { return r.Intn(100) < p }

func pick[T any](r *Rng, xs []T) T { return xs[r.Intn(len(xs))] }

// Fork gives an independent stream (per case), so that cases are stable under
// changes of how many numbers an earlier case consumed.
func (r *Rng) Fork() *Rng { return &Rng{s: r.Next()} }

// Perm: a permutation of 0..n-1
func (r *Rng) Perm(n int) []int {
	p := make([]int, n)
	for i := range p {
		p[i] = i
	}
	for i := n - 1; i > 0; i-- {
		j := r.Intn(i + 1)
		p[i], p[j] = p[j], p[i]
	}
	return p
}
