package main

import (
	"bufio"
	"encoding/json"
	"flag"
	"fmt"
	"os"
	"strconv"
	"strings"
)

type Case map[string]interface{}

var out *bufio.Writer
var caseID int

// noImpl: generate the cases without running the implementation (used to name the case on which the
// process died); flushEach: write every case as soon as it is done
var noImpl, flushEach bool

// ids of cases on which the process is known to die: they are not run again, their outcome is a crash
var skipIDs = map[int]bool{}

func fatalOutcome() Outcome {
	return Outcome{"crash": "fatal error: the process dies on this case (stack overflow, concurrent map write, ...)"}
}

func skipThis() bool { return skipIDs[caseID+1] }

func emit(c Case) {
	caseID++
	if _, ok := c["id"]; !ok {
		c["id"] = caseID
	}
	b, err := json.Marshal(c)
	if err != nil {
		panic(err)
	}
	out.Write(b)
	out.WriteByte('\n')
	if flushEach {
		out.Flush()
	}
}

func main() {
	kind := flag.String("kind", "match", "case family")
	seed := flag.Uint64("seed", 1, "seed")
	n := flag.Int("n", 100, "number of cases")
	profile := flag.String("profile", "general", "history profile")
	replay := flag.String("replay", "", "file of cases to re-run")
	flag.BoolVar(&noImpl, "noimpl", false, "generate the cases without running the implementation")
	flag.BoolVar(&flushEach, "flush", false, "flush after every case")
	skip := flag.String("skipids", "", "comma separated ids of cases not to run (known to kill the process)")
	flag.Parse()
	for _, f := range strings.Split(*skip, ",") {
		if n, err := strconv.Atoi(f); err == nil {
			skipIDs[n] = true
		}
	}
	out = bufio.NewWriterSize(os.Stdout, 1<<20)
	defer out.Flush()
	r := NewRng(*seed)
	if *replay != "" {
		replayCases(*replay)
		return
	}
	switch *kind {
	case "match":
		genMatchCases(r, *n)
	case "update":
		genUpdateCases(r, *n)
	case "num":
		genNumCases(r, *n)
	case "hist":
		genHistCases(r, *n, *profile)
	case "garbage":
		genGarbageCases(r, *n)
	case "reserved":
		genReservedCases()
	case "poke":
		genPokeCases(r, *n)
	case "decomp":
		genDecompCases(r, *n)
	default:
		fmt.Fprintln(os.Stderr, "unknown kind", *kind)
		os.Exit(2)
	}
}

func genMatchCases(r *Rng, n int) {
	for i := 0; i < n; i++ {
		cr := r.Fork()
		o := ValOpts{ExactNums: cr.Chance(70), AllowEmpty: cr.Chance(20), MaxDepth: 2}
		item := genItem(cr, o)
		g := &CondGen{r: cr, item: item, o: o, Exotic: cr.Chance(10)}
		tree := g.Gen(cr.Intn(4))
		ctx := NewExprCtx(cr)
		if cr.Chance(4) {
			// expression attribute names whose values are placeholders again, in a cycle, or a dotted value that
			// contains its own placeholder: each names an attribute the item does not have
			root := seedCyclicNames(cr, ctx)
			extra := &Cond{K: "fn", Fn: pick(cr, []string{"attribute_exists", "attribute_not_exists"}), Args: []Operand{{Kind: "path", Root: []byte(root)}}}
			if cr.Bool() {
				extra = &Cond{K: "cmp", Op: pick(cr, []string{"=", "<>"}), L: &Operand{Kind: "path", Root: []byte(root)}, R: &Operand{Kind: "val", Val: S("red")}}
			}
			tree = &Cond{K: pick(cr, []string{"and", "or"}), A: extra, B: tree}
		}
		expr := ctx.Print(tree, 0)
		if cr.Chance(3) {
			// a list index given through a placeholder or an attribute (an extension of the library: DynamoDB only takes
			// literals there): any number may arrive, negative, fractional or huge — the verdict is the model's, a
			// runtime fault is nobody's
			ctx = NewExprCtx(cr)
			ctx.Values[":i"] = AV{T: "N", V: []byte(pick(cr, []string{"-1", "0", "1", "7", "0.5", "-0.5", "1e30", "-1e30", "-9223372036854775808", "2"}))}
			ctx.Values[":v"] = S("a")
			lst := "l1"
			if _, ok := item.get("lz"); ok && cr.Bool() {
				lst = "lz"
			}
			expr = pick(cr, []string{lst + "[:i] = :v", "attribute_exists(" + lst + "[:i])", lst + "[:i] IN (:v)", "NOT " + lst + "[:i][0] = :v", ":v = " + lst + "[:i].k"})
			tree = nil
		}
		impl := runMatch(expr, item, ctx.Names, ctx.Values)
		emit(Case{"kind": "match", "expr": hx([]byte(expr)), "text": expr, "item": canonKeysOnly(item), "names": namesList(ctx.Names),
			"values": valuesItem(ctx.Values), "tree": tree, "bareReserved": ctx.BareReserv, "impl": impl,
			"clients": clientsMatch(expr, item, ctx.Names, ctx.Values, impl, true)})
	}
}

func genUpdateCases(r *Rng, n int) {
	for i := 0; i < n; i++ {
		cr := r.Fork()
		o := ValOpts{ExactNums: cr.Chance(70), AllowEmpty: cr.Chance(20), MaxDepth: 2 + cr.Intn(2)}
		item := genItem(cr, o)
		g := &UpdGen{r: cr, item: item, o: o}
		acts := g.Gen()
		ctx := NewExprCtx(cr)
		if cr.Chance(4) {
			root := seedCyclicNames(cr, ctx)
			acts = append(acts, UAction{K: "remove", Target: Operand{Kind: "path", Root: []byte(root)}})
		}
		expr := ctx.PrintUpdate(acts)
		impl := runUpdate(expr, item, ctx.Names, ctx.Values)
		emit(Case{"kind": "update", "expr": hx([]byte(expr)), "text": expr, "item": canonKeysOnly(item), "names": namesList(ctx.Names),
			"values": valuesItem(ctx.Values), "tree": acts, "bareReserved": ctx.BareReserv, "impl": impl,
			"clients": clientsUpdate(expr, item, ctx.Names, ctx.Values, impl, true)})
	}
}

// seedCyclicNames puts a cycle of placeholders (length 2 or 3) or a dotted self-reference into the
// expression attribute names and returns the attribute name whose placeholder enters it
func seedCyclicNames(r *Rng, ctx *ExprCtx) string {
	set := func(alias, target string) {
		ctx.Names[alias] = target
		ctx.nameOf[target] = alias
	}
	switch r.Intn(3) {
	case 0:
		set("#c0", "#c1")
		set("#c1", "#c0")
		return "#c1"
	case 1:
		set("#c0", "#c1")
		set("#c1", "#c2")
		set("#c2", "#c0")
		return "#c1"
	}
	set("#p", "nometa.#p")
	return "nometa.#p"
}

func genNumCases(r *Rng, n int) {
	for i := 0; i < n; i++ {
		cr := r.Fork()
		a, b := string(genNum(cr, false)), string(genNum(cr, false))
		if cr.Chance(50) {
			a = randNumeral(cr)
		}
		if cr.Chance(50) {
			b = randNumeral(cr)
		}
		fa, ea := strconv.ParseFloat(a, 64)
		fb, eb := strconv.ParseFloat(b, 64)
		impl := Outcome{}
		if ea != nil || eb != nil {
			impl["err"] = "parse"
		} else {
			cmp := 0
			if fa < fb {
				cmp = -1
			} else if fa > fb {
				cmp = 1
			}
			impl = Outcome{"fa": strconv.FormatFloat(fa, 'f', -1, 64), "fb": strconv.FormatFloat(fb, 'f', -1, 64),
				"add": strconv.FormatFloat(fa+fb, 'f', -1, 64), "sub": strconv.FormatFloat(fa-fb, 'f', -1, 64), "cmp": cmp}
		}
		emit(Case{"kind": "num", "a": hx([]byte(a)), "b": hx([]byte(b)), "impl": impl})
	}
}

func randNumeral(r *Rng) string {
	digits := 1 + r.Intn(20)
	s := ""
	if r.Chance(30) {
		s = "-"
	}
	for i := 0; i < digits; i++ {
		s += string(rune('0' + r.Intn(10)))
	}
	if r.Chance(50) {
		s += "."
		for i := 0; i < 1+r.Intn(18); i++ {
			s += string(rune('0' + r.Intn(10)))
		}
	}
	if r.Chance(30) {
		s += fmt.Sprintf("e%d", r.Intn(60)-30)
	}
	return s
}
