package main

import (
	"context"
	"errors"
	"fmt"
	"sort"

	"github.com/aws/aws-sdk-go-v2/aws"
	"github.com/aws/aws-sdk-go-v2/service/dynamodb"
	v2types "github.com/aws/aws-sdk-go-v2/service/dynamodb/types"
	"github.com/aws/smithy-go"
	v2 "github.com/truora/minidyn/aws-v2/client"
	"github.com/truora/minidyn/interpreter"
	"github.com/truora/minidyn/types"
)

var ctx = context.Background()

// cancelledCtx: the fake never looks at the context (no call observes it), so a cancelled one changes nothing
var cancelledCtx = func() context.Context {
	c, cancel := context.WithCancel(context.Background())
	cancel()
	return c
}()

func classOfCode(code string) string {
	switch code {
	case "ValidationException":
		return "Validation"
	case "ConditionalCheckFailedException":
		return "ConditionalCheckFailed"
	case "ResourceNotFoundException":
		return "ResourceNotFound"
	case "ResourceInUseException":
		return "ResourceInUse"
	case "InternalServerError":
		return "InternalServerError"
	}
	return "Code:" + code
}

type coder interface{ Code() string }

func errOutcomeV2(err error) Outcome {
	o := Outcome{}
	var ccf *v2types.ConditionalCheckFailedException
	if errors.As(err, &ccf) {
		o["err"] = "ConditionalCheckFailed"
		if len(ccf.Item) > 0 {
			o["item"] = fromV2Item(ccf.Item)
		}
		return o
	}
	var api smithy.APIError
	if errors.As(err, &api) {
		o["err"] = classOfCode(api.ErrorCode())
		return o
	}
	var c coder
	if errors.As(err, &c) {
		o["err"] = classOfCode(c.Code())
		if o["err"] == "ConditionalCheckFailed" || o["err"] == "ResourceNotFound" {
			// these two reach the caller as the SDK's exception types (errors.As), never as the library's internal error
			o["untyped"] = true
		}
		return o
	}
	switch {
	case errors.Is(err, v2.ErrForcedFailure):
		o["err"] = "ForcedFailure"
	case errors.Is(err, interpreter.ErrSyntaxError):
		o["err"] = "Syntax"
	case errors.Is(err, interpreter.ErrUnsupportedFeature):
		o["err"] = "Unsupported"
	default:
		o["err"] = "Other:" + err.Error()
	}
	return o
}

func strptr(h HexS) *string { s := string(h); return &s }

func v2KeySchema(k KeyDef) ([]v2types.KeySchemaElement, []v2types.AttributeDefinition) {
	ks := []v2types.KeySchemaElement{{AttributeName: strptr(k.Hash[0]), KeyType: v2types.KeyTypeHash}}
	ad := []v2types.AttributeDefinition{{AttributeName: strptr(k.Hash[0]), AttributeType: v2types.ScalarAttributeType(k.Hash[1])}}
	if k.Range != nil {
		ks = append(ks, v2types.KeySchemaElement{AttributeName: strptr(k.Range[0]), KeyType: v2types.KeyTypeRange})
		ad = append(ad, v2types.AttributeDefinition{AttributeName: strptr(k.Range[0]), AttributeType: v2types.ScalarAttributeType(k.Range[1])})
	}
	return ks, ad
}

func v2Throughput(tp bool) *v2types.ProvisionedThroughput {
	if !tp {
		return nil
	}
	return &v2types.ProvisionedThroughput{ReadCapacityUnits: aws.Int64(5), WriteCapacityUnits: aws.Int64(5)}
}

func descOutV2(d *v2types.TableDescription) Outcome {
	out := DescOut{Count: aws.ToInt64(d.ItemCount), Schema: [][2]HexS{}, GSI: []IndexDescOut{}, LSI: []IndexDescOut{}}
	for _, k := range d.KeySchema {
		out.Schema = append(out.Schema, [2]HexS{HexS(aws.ToString(k.AttributeName)), HexS(k.KeyType)})
	}
	for _, g := range d.GlobalSecondaryIndexes {
		x := IndexDescOut{Name: HexS(aws.ToString(g.IndexName)), Count: aws.ToInt64(g.ItemCount), Schema: [][2]HexS{}}
		for _, k := range g.KeySchema {
			x.Schema = append(x.Schema, [2]HexS{HexS(aws.ToString(k.AttributeName)), HexS(k.KeyType)})
		}
		out.GSI = append(out.GSI, x)
	}
	for _, g := range d.LocalSecondaryIndexes {
		x := IndexDescOut{Name: HexS(aws.ToString(g.IndexName)), Count: aws.ToInt64(g.ItemCount), Schema: [][2]HexS{}}
		for _, k := range g.KeySchema {
			x.Schema = append(x.Schema, [2]HexS{HexS(aws.ToString(k.AttributeName)), HexS(k.KeyType)})
		}
		out.LSI = append(out.LSI, x)
	}
	sort.Slice(out.GSI, func(i, j int) bool { return out.GSI[i].Name < out.GSI[j].Name })
	sort.Slice(out.LSI, func(i, j int) bool { return out.LSI[i].Name < out.LSI[j].Name })
	return Outcome{"describe": out}
}

func matcherFunc(id int) interpreter.MatcherFunc {
	want := fmt.Sprint(id)
	return func(item, _ map[string]*types.Item) bool {
		v, ok := item["v"]
		return ok && v != nil && v.S != nil && *v.S == want
	}
}

func updaterFunc(id int) interpreter.UpdaterFunc {
	return func(item, _ map[string]*types.Item) {
		s := fmt.Sprint(id)
		item["nat"] = &types.Item{S: &s}
	}
}

func exprKind(k string) interpreter.ExpressionType {
	switch k {
	case "key":
		return interpreter.ExpressionTypeKey
	case "filter":
		return interpreter.ExpressionTypeFilter
	}
	return interpreter.ExpressionTypeConditional
}

func optStr(h HexS) *string {
	if h == "" {
		return nil
	}
	return strptr(h)
}

func v2Values(o *Op) map[string]v2types.AttributeValue {
	if len(o.values) == 0 {
		return nil
	}
	m := map[string]v2types.AttributeValue{}
	for k, v := range o.values {
		m[k] = toV2(v)
	}
	return m
}

func v2Start(o *Op, start Item) map[string]v2types.AttributeValue {
	if len(start) > 0 {
		return toV2Item(start)
	}
	if o.EmptyStart {
		return map[string]v2types.AttributeValue{} // an empty map is no start key, like nil
	}
	return nil
}

func searchV2(c *v2.Client, o *Op, start Item) (Item, []Item, error) {
	var items []map[string]v2types.AttributeValue
	var lek map[string]v2types.AttributeValue
	var lim *int32
	if o.Limit != 0 {
		lim = aws.Int32(int32(o.Limit))
	}
	if o.Scan {
		out, err := c.Scan(ctx, &dynamodb.ScanInput{TableName: strptr(o.Table), IndexName: optStr(o.Index), FilterExpression: optStr(o.Filter),
			ExpressionAttributeNames: strMap(o.names), ExpressionAttributeValues: v2Values(o), Limit: lim, ExclusiveStartKey: v2Start(o, start)})
		if err != nil {
			return nil, nil, err
		}
		if int(out.Count) != len(out.Items) {
			return nil, nil, fmt.Errorf("Count %d != len(Items) %d", out.Count, len(out.Items))
		}
		items, lek = out.Items, out.LastEvaluatedKey
	} else {
		out, err := c.Query(ctx, &dynamodb.QueryInput{TableName: strptr(o.Table), IndexName: optStr(o.Index), KeyConditionExpression: optStr(o.KeyCond),
			FilterExpression: optStr(o.Filter), ExpressionAttributeNames: strMap(o.names), ExpressionAttributeValues: v2Values(o), Limit: lim,
			ExclusiveStartKey: v2Start(o, start), ScanIndexForward: aws.Bool(o.Forward)})
		if err != nil {
			return nil, nil, err
		}
		if int(out.Count) != len(out.Items) {
			return nil, nil, fmt.Errorf("Count %d != len(Items) %d", out.Count, len(out.Items))
		}
		items, lek = out.Items, out.LastEvaluatedKey
	}
	res := []Item{}
	for _, it := range items {
		res = append(res, fromV2Item(it))
	}
	return fromV2Item(lek), res, nil
}

func runV2(c *v2.Client, o *Op) (out Outcome) {
	defer func() {
		if r := recover(); r != nil {
			out = crashOutcome(r)
		}
	}()
	ctx := ctx
	if o.Cancelled {
		ctx = cancelledCtx
	}
	switch o.Op {
	case "createTable":
		if viaHelper(o) {
			rng := ""
			if o.Key.Range != nil {
				rng = string(o.Key.Range[0])
			}
			if err := v2.AddTable(ctx, c, string(o.Table), string(o.Key.Hash[0]), rng); err != nil {
				return errOutcomeV2(err)
			}
			res, err := c.DescribeTable(ctx, &dynamodb.DescribeTableInput{TableName: strptr(o.Table)})
			if err != nil {
				return errOutcomeV2(err)
			}
			return descOutV2(res.Table)
		}
		ks, ad := v2KeySchema(*o.Key)
		in := &dynamodb.CreateTableInput{TableName: strptr(o.Table), KeySchema: ks, ProvisionedThroughput: v2Throughput(o.TP)}
		if o.PPR {
			in.BillingMode = v2types.BillingModePayPerRequest
		} else {
			in.BillingMode = v2types.BillingModeProvisioned
		}
		if o.GSI != nil {
			in.GlobalSecondaryIndexes = []v2types.GlobalSecondaryIndex{}
			for _, g := range *o.GSI {
				gks, gad := v2KeySchema(g.Key)
				ad = append(ad, gad...)
				in.GlobalSecondaryIndexes = append(in.GlobalSecondaryIndexes, v2types.GlobalSecondaryIndex{IndexName: strptr(g.Name), KeySchema: gks,
					Projection: &v2types.Projection{ProjectionType: v2types.ProjectionTypeAll}, ProvisionedThroughput: v2Throughput(g.TP)})
			}
		}
		if o.LSI != nil {
			in.LocalSecondaryIndexes = []v2types.LocalSecondaryIndex{}
			for _, g := range *o.LSI {
				gks, gad := v2KeySchema(g.Key)
				ad = append(ad, gad...)
				in.LocalSecondaryIndexes = append(in.LocalSecondaryIndexes, v2types.LocalSecondaryIndex{IndexName: strptr(g.Name), KeySchema: gks,
					Projection: &v2types.Projection{ProjectionType: v2types.ProjectionTypeAll}})
			}
		}
		in.AttributeDefinitions = ad
		res, err := c.CreateTable(ctx, in)
		if err != nil {
			return errOutcomeV2(err)
		}
		return descOutV2(res.TableDescription)
	case "deleteTable":
		res, err := c.DeleteTable(ctx, &dynamodb.DeleteTableInput{TableName: strptr(o.Table)})
		if err != nil {
			return errOutcomeV2(err)
		}
		return descOutV2(res.TableDescription)
	case "describeTable":
		res, err := c.DescribeTable(ctx, &dynamodb.DescribeTableInput{TableName: strptr(o.Table)})
		if err != nil {
			return errOutcomeV2(err)
		}
		return descOutV2(res.Table)
	case "updateTable":
		if ix := indexViaHelper(o); ix != nil {
			rng := ""
			if ix.Key.Range != nil {
				rng = string(ix.Key.Range[0])
			}
			if err := v2.AddIndex(ctx, c, string(o.Table), string(ix.Name), string(ix.Key.Hash[0]), rng); err != nil {
				return errOutcomeV2(err)
			}
			res, err := c.DescribeTable(ctx, &dynamodb.DescribeTableInput{TableName: strptr(o.Table)})
			if err != nil {
				return errOutcomeV2(err)
			}
			return descOutV2(res.Table)
		}
		in := &dynamodb.UpdateTableInput{TableName: strptr(o.Table)}
		for _, ch := range o.Changes {
			if ch.Create != nil {
				gks, gad := v2KeySchema(ch.Create.Key)
				if !ch.Create.NoDefs {
					in.AttributeDefinitions = append(in.AttributeDefinitions, gad...)
				}
				in.GlobalSecondaryIndexUpdates = append(in.GlobalSecondaryIndexUpdates, v2types.GlobalSecondaryIndexUpdate{Create: &v2types.CreateGlobalSecondaryIndexAction{
					IndexName: strptr(ch.Create.Name), KeySchema: gks, Projection: &v2types.Projection{ProjectionType: v2types.ProjectionTypeAll}, ProvisionedThroughput: v2Throughput(ch.Create.TP)}})
			} else {
				in.GlobalSecondaryIndexUpdates = append(in.GlobalSecondaryIndexUpdates, v2types.GlobalSecondaryIndexUpdate{Delete: &v2types.DeleteGlobalSecondaryIndexAction{IndexName: strptr(*ch.Delete)}})
			}
		}
		res, err := c.UpdateTable(ctx, in)
		if err != nil {
			return errOutcomeV2(err)
		}
		return descOutV2(res.TableDescription)
	case "clearTable":
		if err := v2.ClearTable(c, string(o.Table)); err != nil {
			return errOutcomeV2(err)
		}
		return okOut()
	case "put":
		_, err := c.PutItem(ctx, &dynamodb.PutItemInput{TableName: strptr(o.Table), Item: toV2Item(o.Item), ConditionExpression: condPtr(o.Cond),
			ExpressionAttributeNames: strMap(o.names), ExpressionAttributeValues: v2Values(o)})
		if err != nil {
			return errOutcomeV2(err)
		}
		return okOut()
	case "update":
		in := &dynamodb.UpdateItemInput{TableName: strptr(o.Table), Key: toV2Item(o.KeyItem), UpdateExpression: strptr(o.Expr), ConditionExpression: condPtr(o.Cond),
			ExpressionAttributeNames: strMap(o.names), ExpressionAttributeValues: v2Values(o)}
		if o.NoExpr {
			in.UpdateExpression = nil
		}
		if o.RetOnFail {
			in.ReturnValuesOnConditionCheckFailure = v2types.ReturnValuesOnConditionCheckFailureAllOld
		}
		res, err := c.UpdateItem(ctx, in)
		if err != nil {
			return errOutcomeV2(err)
		}
		return Outcome{"item": fromV2Item(res.Attributes)}
	case "delete":
		in := &dynamodb.DeleteItemInput{TableName: strptr(o.Table), Key: toV2Item(o.KeyItem), ConditionExpression: condPtr(o.Cond),
			ExpressionAttributeNames: strMap(o.names), ExpressionAttributeValues: v2Values(o)}
		if o.RetOld {
			in.ReturnValues = v2types.ReturnValueAllOld
		} else if o.RetOther != "" {
			in.ReturnValues = v2types.ReturnValue(o.RetOther)
		}
		res, err := c.DeleteItem(ctx, in)
		if err != nil {
			return errOutcomeV2(err)
		}
		if o.RetOld {
			return Outcome{"item": fromV2Item(res.Attributes)}
		}
		return Outcome{"item": nil}
	case "get":
		res, err := c.GetItem(ctx, &dynamodb.GetItemInput{TableName: strptr(o.Table), Key: toV2Item(o.KeyItem)})
		if err != nil {
			return errOutcomeV2(err)
		}
		return Outcome{"item": fromV2Item(res.Item)}
	case "query":
		lek, items, err := searchV2(c, o, o.StartKey)
		if err != nil {
			return errOutcomeV2(err)
		}
		return Outcome{"search": SearchOut{Items: items, Count: int64(len(items)), LEK: lek}}
	case "pages":
		pages := []PageOut{}
		start := o.StartKey
		for n := 0; n < o.MaxPages; n++ {
			lek, items, eo := safeSearchV2(c, o, start)
			if eo != nil {
				if len(pages) == 0 {
					return eo
				}
				return Outcome{"pagesErr": map[string]interface{}{"pages": pages, "error": eo}}
			}
			pages = append(pages, PageOut{Items: items, LEK: lek})
			if len(lek) == 0 {
				break
			}
			if o.DelAfter != nil && *o.DelAfter == n {
				c.DeleteItem(ctx, &dynamodb.DeleteItemInput{TableName: strptr(o.Table), Key: toV2Item(primaryKeyOf(o, lek))})
			}
			start = lek
		}
		return Outcome{"pages": pages}
	case "batchWrite":
		in := &dynamodb.BatchWriteItemInput{RequestItems: map[string][]v2types.WriteRequest{}}
		for _, tr := range o.WReqs {
			for _, r := range tr.Reqs {
				w := v2types.WriteRequest{}
				switch {
				case r.Both != nil:
					w.PutRequest = &v2types.PutRequest{Item: toV2Item(r.Both[0])}
					w.DeleteRequest = &v2types.DeleteRequest{Key: toV2Item(r.Both[1])}
				case r.Neither:
				case r.Put != nil:
					w.PutRequest = &v2types.PutRequest{Item: toV2Item(r.Put)}
				default:
					w.DeleteRequest = &v2types.DeleteRequest{Key: toV2Item(r.Del)}
				}
				in.RequestItems[string(tr.Table)] = append(in.RequestItems[string(tr.Table)], w)
			}
		}
		res, err := c.BatchWriteItem(ctx, in)
		if err != nil {
			return errOutcomeV2(err)
		}
		unp := []TableReqs{}
		for t, rs := range res.UnprocessedItems {
			tr := TableReqs{Table: HexS(t)}
			for _, r := range rs {
				switch {
				case r.PutRequest != nil:
					tr.Reqs = append(tr.Reqs, WReq{Put: fromV2Item(r.PutRequest.Item)})
				case r.DeleteRequest != nil:
					tr.Reqs = append(tr.Reqs, WReq{Del: fromV2Item(r.DeleteRequest.Key)})
				}
			}
			unp = append(unp, tr)
		}
		sort.Slice(unp, func(i, j int) bool { return unp[i].Table < unp[j].Table })
		return Outcome{"batchWrite": unp}
	case "batchGet":
		in := &dynamodb.BatchGetItemInput{RequestItems: map[string]v2types.KeysAndAttributes{}}
		for _, tk := range o.GReqs {
			ka := v2types.KeysAndAttributes{}
			for _, k := range tk.Keys {
				ka.Keys = append(ka.Keys, toV2Item(k))
			}
			in.RequestItems[string(tk.Table)] = ka
		}
		res, err := c.BatchGetItem(ctx, in)
		if err != nil {
			return errOutcomeV2(err)
		}
		resp, unp := []TableKeys{}, []TableKeys{}
		for t, its := range res.Responses {
			tk := TableKeys{Table: HexS(t)}
			for _, it := range its {
				tk.Keys = append(tk.Keys, fromV2Item(it))
			}
			resp = append(resp, tk)
		}
		for t, ka := range res.UnprocessedKeys {
			tk := TableKeys{Table: HexS(t)}
			for _, k := range ka.Keys {
				tk.Keys = append(tk.Keys, fromV2Item(k))
			}
			unp = append(unp, tk)
		}
		sort.Slice(resp, func(i, j int) bool { return resp[i].Table < resp[j].Table })
		sort.Slice(unp, func(i, j int) bool { return unp[i].Table < unp[j].Table })
		return Outcome{"batchGet": map[string]interface{}{"responses": resp, "unprocessed": unp}}
	case "transactWrite":
		_, err := c.TransactWriteItems(ctx, &dynamodb.TransactWriteItemsInput{})
		if err != nil {
			return errOutcomeV2(err)
		}
		return okOut()
	case "setFailure":
		switch {
		case o.Legacy && o.F == "none":
			v2.DeactiveForceFailure(c)
		case o.Legacy && o.F == "deprecated":
			v2.ActiveForceFailure(c)
		default:
			v2.EmulateFailure(c, v2.FailureCondition(o.F))
		}
		return okOut()
	case "activateNative":
		c.ActivateNativeInterpreter()
		return okOut()
	case "setInterpreter":
		c.SetInterpreter(interpreter.NewNativeInterpreter())
		return okOut()
	case "registerMatcher":
		c.GetNativeInterpreter().AddMatcher(string(o.Table), exprKind(o.Kind), string(o.Expr), matcherFunc(o.ID))
		return okOut()
	case "registerUpdater":
		c.GetNativeInterpreter().AddUpdater(string(o.Table), string(o.Expr), updaterFunc(o.ID))
		return okOut()
	}
	return Outcome{"crash": "unknown op " + o.Op}
}

func condPtr(h *HexS) *string {
	if h == nil {
		return nil
	}
	s := string(*h)
	return &s
}

// primaryKeyOf extracts the table's primary key attributes from a LastEvaluatedKey;
// the schema travels with the op (PKAttrs)
func primaryKeyOf(o *Op, lek Item) Item {
	out := Item{}
	for _, kv := range lek {
		for _, a := range o.pkAttrs {
			if string(kv.K) == a {
				out = append(out, kv)
			}
		}
	}
	return out
}

// safeSearchV2 turns an error or a panic of one page read into an outcome
func safeSearchV2(c *v2.Client, o *Op, start Item) (lek Item, items []Item, eo Outcome) {
	defer func() {
		if r := recover(); r != nil {
			eo = crashOutcome(r)
		}
	}()
	lek, items, err := searchV2(c, o, start)
	if err != nil {
		return nil, nil, errOutcomeV2(err)
	}
	return lek, items, nil
}
