package main

import (
	"go/ast"
	"go/parser"
	"go/token"
	"os"
	"sort"
	"strconv"
)

// reservedWordList reads the words out of the repository's token.go (the table is unexported)
func reservedWordList() []string {
	repo := os.Getenv("VERIF_REPO")
	if repo == "" {
		repo = "/repo"
	}
	fset := token.NewFileSet()
	f, err := parser.ParseFile(fset, repo+"/interpreter/language/token.go", nil, 0)
	if err != nil {
		panic(err)
	}
	words := []string{}
	ast.Inspect(f, func(n ast.Node) bool {
		vs, ok := n.(*ast.ValueSpec)
		if !ok || len(vs.Names) != 1 || vs.Names[0].Name != "reservedWords" || len(vs.Values) != 1 {
			return true
		}
		if cl, ok := vs.Values[0].(*ast.CompositeLit); ok {
			for _, e := range cl.Elts {
				if kv, ok := e.(*ast.KeyValueExpr); ok {
					if b, ok := kv.Key.(*ast.BasicLit); ok {
						if s, err := strconv.Unquote(b.Value); err == nil {
							words = append(words, s)
						}
					}
				}
			}
		}
		return false
	})
	sort.Strings(words)
	return words
}
