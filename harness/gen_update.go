package main

import (
	"strings"
)

// ---------- update expressions ----------

type UVal struct {
	K    string   `json:"k"` // operand plus minus if_not_exists list_append
	O    *Operand `json:"o,omitempty"`
	A    *UVal    `json:"a,omitempty"`
	B    *UVal    `json:"b,omitempty"`
	P    *Operand `json:"p,omitempty"`
}

type UAction struct {
	K      string   `json:"k"` // set remove add delete
	Target Operand  `json:"target"`
	Val    *UVal    `json:"val,omitempty"`
	Arg    *Operand `json:"arg,omitempty"`
}

type UpdGen struct {
	r      *Rng
	item   Item
	o      ValOpts
	noRead map[string]bool // roots modified in place: not read on a right-hand side
	used   map[string]bool // roots already targeted
}

func (c *ExprCtx) uval(v *UVal) string {
	switch v.K {
	case "operand":
		return c.operand(v.O)
	case "plus":
		return c.uval(v.A) + c.sp() + "+" + c.sp() + c.uval(v.B)
	case "minus":
		return c.uval(v.A) + c.sp() + "-" + c.sp() + c.uval(v.B)
	case "if_not_exists":
		return "if_not_exists(" + c.path(v.P) + "," + c.sp() + c.uval(v.A) + ")"
	case "list_append":
		return "list_append(" + c.uval(v.A) + "," + c.sp() + c.uval(v.B) + ")"
	}
	return "?"
}

func (c *ExprCtx) PrintUpdate(acts []UAction) string {
	byKind := map[string][]string{}
	order := []string{}
	for i := range acts {
		a := &acts[i]
		var s string
		switch a.K {
		case "set":
			s = c.path(&a.Target) + c.sp() + "=" + c.sp() + c.uval(a.Val)
		case "remove":
			s = c.path(&a.Target)
		case "add", "delete":
			s = c.path(&a.Target) + c.sp() + c.operand(a.Arg)
		}
		if _, ok := byKind[a.K]; !ok {
			order = append(order, a.K)
		}
		byKind[a.K] = append(byKind[a.K], s)
	}
	parts := []string{}
	for _, k := range order {
		parts = append(parts, strings.ToUpper(k)+c.sp()+strings.Join(byKind[k], ","+c.sp()))
	}
	return strings.Join(parts, c.sp())
}

func (g *UpdGen) freshRoot(pref []string) string {
	for i := 0; i < 8; i++ {
		n := pick(g.r, pref)
		if !g.used[n] {
			g.used[n] = true
			return n
		}
	}
	return ""
}

func (g *UpdGen) attrsOfType(ts ...string) []string {
	out := []string{}
	for _, kv := range g.item {
		if len(kv.K) > 0 && kv.K[0] == ':' {
			continue
		}
		for _, t := range ts {
			if kv.V.T == t {
				out = append(out, string(kv.K))
			}
		}
	}
	return out
}

func (g *UpdGen) readPath(t string) *Operand {
	cg := &CondGen{r: g.r, item: g.item, o: g.o}
	for i := 0; i < 6; i++ {
		p := cg.pathTo(t)
		if !g.noRead[string(p.Root)] {
			return p
		}
	}
	return &Operand{Kind: "path", Root: []byte("nosuch")}
}

func (g *UpdGen) val(depth int, wantT string) *UVal {
	switch {
	case depth > 0 && wantT == "N" && g.r.Chance(40):
		// the grammar has `operand + operand` only: no chains, so no question of associativity
		return &UVal{K: pick(g.r, []string{"plus", "minus"}), A: g.val(0, "N"), B: g.val(0, "N")}
	case depth > 0 && wantT == "L" && g.r.Chance(50):
		return &UVal{K: "list_append", A: g.val(depth-1, "L"), B: g.val(depth-1, "L")}
	case depth > 0 && g.r.Chance(15):
		return &UVal{K: "if_not_exists", P: g.readPath(wantT), A: g.val(depth-1, wantT)}
	case g.r.Chance(30):
		return &UVal{K: "operand", O: g.readPath(wantT)}
	}
	t := wantT
	if t == "" {
		t = pick(g.r, allTypes)
	}
	if (t == "M" || t == "L") && g.r.Chance(12) {
		// an empty map or list is a value like any other (it keeps its type on the way in and on the way out)
		if t == "M" {
			return &UVal{K: "operand", O: &Operand{Kind: "val", Val: AV{T: "M", M: []KV{}}}}
		}
		return &UVal{K: "operand", O: &Operand{Kind: "val", Val: AV{T: "L", L: []AV{}}}}
	}
	return &UVal{K: "operand", O: &Operand{Kind: "val", Val: genOfType(g.r, t, 1, g.o)}}
}

// deepSteps follows the containers that are really there: two to four steps into nested maps and
// lists, the last one naming an existing member (or, in a map, sometimes a new one)
func (g *UpdGen) deepSteps(v AV) []Step {
	steps := []Step{}
	cur := v
	for len(steps) < 4 {
		switch {
		case cur.T == "M" && len(cur.M) > 0:
			kv := pick(g.r, cur.M)
			steps = append(steps, Step{Key: kv.K})
			cur = kv.V
		case cur.T == "L" && len(cur.L) > 0:
			i := g.r.Intn(len(cur.L))
			steps = append(steps, Step{IsIdx: true, Idx: i})
			cur = cur.L[i]
		default:
			if cur.T == "M" && len(steps) > 0 {
				steps = append(steps, Step{Key: []byte("newk")})
			}
			return steps
		}
		if len(steps) >= 2 && g.r.Chance(35) {
			return steps
		}
	}
	return steps
}

func (g *UpdGen) Gen() []UAction {
	g.noRead, g.used = map[string]bool{}, map[string]bool{}
	n := 1 + g.r.Intn(4)
	// decide targets first so the right-hand sides know what they must not read
	type plan struct {
		kind string
		tgt  Operand
	}
	plans := []plan{}
	all := []string{}
	for _, a := range attrPool {
		all = append(all, a.Name)
	}
	all = append(all, "new1", "new2", "nosuch")
	for i := 0; i < n; i++ {
		switch g.r.Intn(10) {
		case 0, 1, 2:
			if root := g.freshRoot(all); root != "" {
				plans = append(plans, plan{"set", Operand{Kind: "path", Root: []byte(root)}})
			}
		case 3: // nested set
			conts := g.attrsOfType("L", "M")
			conts = append(conts, "l1", "m1")
			if root := g.freshRoot(conts); root != "" {
				v, _ := g.item.get(root)
				st := Step{Key: []byte(pick(g.r, []string{"k", "newk", "x"}))}
				if v.T == "L" || (v.T != "M" && g.r.Bool()) {
					st = Step{IsIdx: true, Idx: g.r.Intn(5)}
				}
				steps := []Step{st}
				if deep := g.deepSteps(v); len(deep) > 1 && g.r.Chance(60) {
					steps = deep
				}
				plans = append(plans, plan{"set", Operand{Kind: "path", Root: []byte(root), Steps: steps}})
			}
		case 4, 5:
			if root := g.freshRoot(all); root != "" {
				plans = append(plans, plan{"remove", Operand{Kind: "path", Root: []byte(root)}})
			}
		case 6: // remove nested, possibly several elements of one list
			conts := g.attrsOfType("L", "M")
			conts = append(conts, "l1", "m1")
			if root := g.freshRoot(conts); root != "" {
				v, _ := g.item.get(root)
				if v.T == "L" || (v.T != "M" && g.r.Bool()) {
					seen := map[int]bool{}
					for k := 0; k < 1+g.r.Intn(3); k++ {
						ix := g.r.Intn(5)
						if seen[ix] {
							continue
						}
						seen[ix] = true
						plans = append(plans, plan{"remove", Operand{Kind: "path", Root: []byte(root), Steps: []Step{{IsIdx: true, Idx: ix}}}})
					}
				} else if deep := g.deepSteps(v); len(deep) > 1 && g.r.Chance(60) {
					plans = append(plans, plan{"remove", Operand{Kind: "path", Root: []byte(root), Steps: deep}})
				} else {
					plans = append(plans, plan{"remove", Operand{Kind: "path", Root: []byte(root), Steps: []Step{{Key: []byte(pick(g.r, []string{"k", "x", "nokey"}))}}}})
				}
			}
		case 7, 8:
			cands := g.attrsOfType("N", "SS", "NS", "BS", "L")
			cands = append(cands, "n1", "ss1", "ns1", "newset", "newnum")
			if root := g.freshRoot(cands); root != "" {
				plans = append(plans, plan{"add", Operand{Kind: "path", Root: []byte(root)}})
			}
		default:
			cands := g.attrsOfType("SS", "NS", "BS")
			cands = append(cands, "ss1", "ns1", "bs1", "nosuch")
			if root := g.freshRoot(cands); root != "" {
				plans = append(plans, plan{"delete", Operand{Kind: "path", Root: []byte(root)}})
			}
		}
	}
	if len(plans) == 0 {
		plans = append(plans, plan{"set", Operand{Kind: "path", Root: []byte("new1")}})
	}
	acts := []UAction{}
	for _, p := range plans {
		a := UAction{K: p.kind, Target: p.tgt}
		cur, ok := g.item.get(string(p.tgt.Root))
		switch p.kind {
		case "set":
			wt := ""
			if g.r.Chance(50) {
				wt = pick(g.r, []string{"N", "N", "L", "S"})
			}
			a.Val = g.val(2, wt)
			if ok && len(p.tgt.Steps) == 0 && (cur.T == "N" || cur.T == "S") && len(cur.V) > 0 && g.r.Chance(12) {
				// the value the attribute holds, written the same, with the other type: the number 7 becomes the string "7"
				other := "S"
				if cur.T == "S" {
					other = "N"
					for _, c := range cur.V {
						if c < '0' || c > '9' {
							other = "B"
						}
					}
				}
				a.Val = &UVal{K: "operand", O: &Operand{Kind: "val", Val: AV{T: other, V: cur.V}}}
			}
		case "add":
			var arg AV
			switch {
			case ok && cur.T == "N" && g.r.Chance(85):
				arg = genOfType(g.r, "N", 1, g.o)
			case ok && (cur.T == "SS" || cur.T == "NS" || cur.T == "BS") && g.r.Chance(85):
				arg = genOfType(g.r, cur.T, 1, g.o)
			case !ok:
				arg = genOfType(g.r, pick(g.r, []string{"N", "SS", "NS", "BS"}), 1, g.o)
			default:
				arg = genVal(g.r, 1, g.o)
			}
			a.Arg = &Operand{Kind: "val", Val: arg}
		case "delete":
			var arg AV
			if ok && (cur.T == "SS" || cur.T == "NS" || cur.T == "BS") && g.r.Chance(85) {
				arg = AV{T: cur.T, Set: [][]byte{pick(g.r, cur.Set)}}
				if g.r.Chance(40) {
					arg = genOfType(g.r, cur.T, 1, g.o)
				}
			} else {
				arg = genOfType(g.r, pick(g.r, []string{"SS", "NS", "BS", "S"}), 1, g.o)
			}
			a.Arg = &Operand{Kind: "val", Val: arg}
		}
		acts = append(acts, a)
	}
	return acts
}
