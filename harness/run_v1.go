package main

import (
	"context"
	"errors"
	"fmt"
	"sort"

	"github.com/aws/aws-sdk-go/aws"
	"github.com/aws/aws-sdk-go/aws/awserr"
	v1sdk "github.com/aws/aws-sdk-go/service/dynamodb"
	v1 "github.com/truora/minidyn/aws-v1/client"
	"github.com/truora/minidyn/interpreter"
)

func errOutcomeV1(err error) Outcome {
	o := Outcome{}
	var aerr awserr.Error
	if errors.As(err, &aerr) {
		o["err"] = classOfCode(aerr.Code())
		return o
	}
	var c coder
	if errors.As(err, &c) {
		o["err"] = classOfCode(c.Code())
		return o
	}
	switch {
	case errors.Is(err, v1.ErrForcedFailure):
		o["err"] = "ForcedFailure"
	case errors.Is(err, interpreter.ErrSyntaxError):
		o["err"] = "Syntax"
	case errors.Is(err, interpreter.ErrUnsupportedFeature):
		o["err"] = "Unsupported"
	default:
		o["err"] = "Other:" + err.Error()
	}
	return o
}

func v1KeySchema(k KeyDef) ([]*v1sdk.KeySchemaElement, []*v1sdk.AttributeDefinition) {
	ks := []*v1sdk.KeySchemaElement{{AttributeName: strptr(k.Hash[0]), KeyType: aws.String("HASH")}}
	ad := []*v1sdk.AttributeDefinition{{AttributeName: strptr(k.Hash[0]), AttributeType: strptr(k.Hash[1])}}
	if k.Range != nil {
		ks = append(ks, &v1sdk.KeySchemaElement{AttributeName: strptr(k.Range[0]), KeyType: aws.String("RANGE")})
		ad = append(ad, &v1sdk.AttributeDefinition{AttributeName: strptr(k.Range[0]), AttributeType: strptr(k.Range[1])})
	}
	return ks, ad
}

func v1Throughput(tp bool) *v1sdk.ProvisionedThroughput {
	if !tp {
		return nil
	}
	return &v1sdk.ProvisionedThroughput{ReadCapacityUnits: aws.Int64(5), WriteCapacityUnits: aws.Int64(5)}
}

func descOutV1(d *v1sdk.TableDescription) Outcome {
	out := DescOut{Count: aws.Int64Value(d.ItemCount), Schema: [][2]HexS{}, GSI: []IndexDescOut{}, LSI: []IndexDescOut{}}
	for _, k := range d.KeySchema {
		out.Schema = append(out.Schema, [2]HexS{HexS(aws.StringValue(k.AttributeName)), HexS(aws.StringValue(k.KeyType))})
	}
	for _, g := range d.GlobalSecondaryIndexes {
		x := IndexDescOut{Name: HexS(aws.StringValue(g.IndexName)), Count: aws.Int64Value(g.ItemCount), Schema: [][2]HexS{}}
		for _, k := range g.KeySchema {
			x.Schema = append(x.Schema, [2]HexS{HexS(aws.StringValue(k.AttributeName)), HexS(aws.StringValue(k.KeyType))})
		}
		out.GSI = append(out.GSI, x)
	}
	for _, g := range d.LocalSecondaryIndexes {
		x := IndexDescOut{Name: HexS(aws.StringValue(g.IndexName)), Count: aws.Int64Value(g.ItemCount), Schema: [][2]HexS{}}
		for _, k := range g.KeySchema {
			x.Schema = append(x.Schema, [2]HexS{HexS(aws.StringValue(k.AttributeName)), HexS(aws.StringValue(k.KeyType))})
		}
		out.LSI = append(out.LSI, x)
	}
	sort.Slice(out.GSI, func(i, j int) bool { return out.GSI[i].Name < out.GSI[j].Name })
	sort.Slice(out.LSI, func(i, j int) bool { return out.LSI[i].Name < out.LSI[j].Name })
	return Outcome{"describe": out}
}

func v1Names(o *Op) map[string]*string {
	if len(o.names) == 0 {
		return nil
	}
	m := map[string]*string{}
	for k, v := range o.names {
		vv := v
		m[k] = &vv
	}
	return m
}

func v1Values(o *Op) map[string]*v1sdk.AttributeValue {
	if len(o.values) == 0 {
		return nil
	}
	m := map[string]*v1sdk.AttributeValue{}
	for k, v := range o.values {
		m[k] = toV1(v)
	}
	return m
}

func searchV1(c v1c, o *Op, start Item) (Item, []Item, error) {
	var items []map[string]*v1sdk.AttributeValue
	var lek map[string]*v1sdk.AttributeValue
	var lim *int64
	if o.Limit != 0 {
		lim = aws.Int64(int64(o.Limit))
	}
	var esk map[string]*v1sdk.AttributeValue
	if len(start) > 0 {
		esk = toV1Item(start)
	} else if o.EmptyStart {
		esk = map[string]*v1sdk.AttributeValue{} // an empty map is no start key, like nil
	}
	if o.Scan {
		out, err := c.Scan(&v1sdk.ScanInput{TableName: strptr(o.Table), IndexName: optStr(o.Index), FilterExpression: optStr(o.Filter),
			ExpressionAttributeNames: v1Names(o), ExpressionAttributeValues: v1Values(o), Limit: lim, ExclusiveStartKey: esk})
		if err != nil {
			return nil, nil, err
		}
		if int(aws.Int64Value(out.Count)) != len(out.Items) {
			return nil, nil, fmt.Errorf("Count != len(Items)")
		}
		items, lek = out.Items, out.LastEvaluatedKey
	} else {
		out, err := c.Query(&v1sdk.QueryInput{TableName: strptr(o.Table), IndexName: optStr(o.Index), KeyConditionExpression: optStr(o.KeyCond),
			FilterExpression: optStr(o.Filter), ExpressionAttributeNames: v1Names(o), ExpressionAttributeValues: v1Values(o), Limit: lim,
			ExclusiveStartKey: esk, ScanIndexForward: aws.Bool(o.Forward)})
		if err != nil {
			return nil, nil, err
		}
		if int(aws.Int64Value(out.Count)) != len(out.Items) {
			return nil, nil, fmt.Errorf("Count != len(Items)")
		}
		items, lek = out.Items, out.LastEvaluatedKey
	}
	res := []Item{}
	for _, it := range items {
		res = append(res, fromV1Item(it))
	}
	return fromV1Item(lek), res, nil
}

func runV1(c0 *v1.Client, o *Op) (out Outcome) {
	defer func() {
		if r := recover(); r != nil {
			out = crashOutcome(r)
		}
	}()
	c := v1c{c0}
	switch o.Op {
	case "createTable":
		if viaHelper(o) {
			// the AddTable helper builds the same request: string keys, pay per request (and a throughput)
			rng := ""
			if o.Key.Range != nil {
				rng = string(o.Key.Range[0])
			}
			if err := v1.AddTable(c0, string(o.Table), string(o.Key.Hash[0]), rng); err != nil {
				return errOutcomeV1(err)
			}
			res, err := c.DescribeTable(&v1sdk.DescribeTableInput{TableName: strptr(o.Table)})
			if err != nil {
				return errOutcomeV1(err)
			}
			return descOutV1(res.Table)
		}
		ks, ad := v1KeySchema(*o.Key)
		in := &v1sdk.CreateTableInput{TableName: strptr(o.Table), KeySchema: ks, ProvisionedThroughput: v1Throughput(o.TP)}
		if o.PPR {
			in.BillingMode = aws.String("PAY_PER_REQUEST")
		} else {
			in.BillingMode = aws.String("PROVISIONED")
		}
		if o.GSI != nil {
			in.GlobalSecondaryIndexes = []*v1sdk.GlobalSecondaryIndex{}
			for _, g := range *o.GSI {
				gks, gad := v1KeySchema(g.Key)
				ad = append(ad, gad...)
				in.GlobalSecondaryIndexes = append(in.GlobalSecondaryIndexes, &v1sdk.GlobalSecondaryIndex{IndexName: strptr(g.Name), KeySchema: gks,
					Projection: &v1sdk.Projection{ProjectionType: aws.String("ALL")}, ProvisionedThroughput: v1Throughput(g.TP)})
			}
		}
		if o.LSI != nil {
			in.LocalSecondaryIndexes = []*v1sdk.LocalSecondaryIndex{}
			for _, g := range *o.LSI {
				gks, gad := v1KeySchema(g.Key)
				ad = append(ad, gad...)
				in.LocalSecondaryIndexes = append(in.LocalSecondaryIndexes, &v1sdk.LocalSecondaryIndex{IndexName: strptr(g.Name), KeySchema: gks,
					Projection: &v1sdk.Projection{ProjectionType: aws.String("ALL")}})
			}
		}
		in.AttributeDefinitions = ad
		res, err := c.CreateTable(in)
		if err != nil {
			return errOutcomeV1(err)
		}
		return descOutV1(res.TableDescription)
	case "deleteTable":
		res, err := c.DeleteTable(&v1sdk.DeleteTableInput{TableName: strptr(o.Table)})
		if err != nil {
			return errOutcomeV1(err)
		}
		return descOutV1(res.TableDescription)
	case "describeTable":
		res, err := c.DescribeTable(&v1sdk.DescribeTableInput{TableName: strptr(o.Table)})
		if err != nil {
			return errOutcomeV1(err)
		}
		return descOutV1(res.Table)
	case "updateTable":
		if ix := indexViaHelper(o); ix != nil {
			rng := ""
			if ix.Key.Range != nil {
				rng = string(ix.Key.Range[0])
			}
			if err := v1.AddIndex(c0, string(o.Table), string(ix.Name), string(ix.Key.Hash[0]), rng); err != nil {
				return errOutcomeV1(err)
			}
			res, err := c.DescribeTable(&v1sdk.DescribeTableInput{TableName: strptr(o.Table)})
			if err != nil {
				return errOutcomeV1(err)
			}
			return descOutV1(res.Table)
		}
		in := &v1sdk.UpdateTableInput{TableName: strptr(o.Table)}
		for _, ch := range o.Changes {
			if ch.Create != nil {
				gks, gad := v1KeySchema(ch.Create.Key)
				if !ch.Create.NoDefs {
					in.AttributeDefinitions = append(in.AttributeDefinitions, gad...)
				}
				in.GlobalSecondaryIndexUpdates = append(in.GlobalSecondaryIndexUpdates, &v1sdk.GlobalSecondaryIndexUpdate{Create: &v1sdk.CreateGlobalSecondaryIndexAction{
					IndexName: strptr(ch.Create.Name), KeySchema: gks, Projection: &v1sdk.Projection{ProjectionType: aws.String("ALL")}, ProvisionedThroughput: v1Throughput(ch.Create.TP)}})
			} else {
				in.GlobalSecondaryIndexUpdates = append(in.GlobalSecondaryIndexUpdates, &v1sdk.GlobalSecondaryIndexUpdate{Delete: &v1sdk.DeleteGlobalSecondaryIndexAction{IndexName: strptr(*ch.Delete)}})
			}
		}
		res, err := c.UpdateTable(in)
		if err != nil {
			return errOutcomeV1(err)
		}
		return descOutV1(res.TableDescription)
	case "clearTable":
		if err := v1.ClearTable(c0, string(o.Table)); err != nil {
			return errOutcomeV1(err)
		}
		return okOut()
	case "put":
		_, err := c.PutItem(&v1sdk.PutItemInput{TableName: strptr(o.Table), Item: toV1Item(itemOrEmpty(o.Item)), ConditionExpression: condPtr(o.Cond),
			ExpressionAttributeNames: v1Names(o), ExpressionAttributeValues: v1Values(o)})
		if err != nil {
			return errOutcomeV1(err)
		}
		return okOut()
	case "update":
		in := &v1sdk.UpdateItemInput{TableName: strptr(o.Table), Key: toV1Item(itemOrEmpty(o.KeyItem)), UpdateExpression: strptr(o.Expr), ConditionExpression: condPtr(o.Cond),
			ExpressionAttributeNames: v1Names(o), ExpressionAttributeValues: v1Values(o)}
		if o.NoExpr {
			in.UpdateExpression = nil
		}
		res, err := c.UpdateItem(in)
		if err != nil {
			return errOutcomeV1(err)
		}
		return Outcome{"item": fromV1Item(res.Attributes)}
	case "delete":
		in := &v1sdk.DeleteItemInput{TableName: strptr(o.Table), Key: toV1Item(itemOrEmpty(o.KeyItem)), ConditionExpression: condPtr(o.Cond),
			ExpressionAttributeNames: v1Names(o), ExpressionAttributeValues: v1Values(o)}
		if o.RetOld {
			in.ReturnValues = aws.String("ALL_OLD")
		} else if o.RetOther != "" {
			in.ReturnValues = aws.String(o.RetOther) // NONE, or a value DeleteItem has no use for: nothing comes back
		}
		res, err := c.DeleteItem(in)
		if err != nil {
			return errOutcomeV1(err)
		}
		if o.RetOld {
			return Outcome{"item": fromV1Item(res.Attributes)}
		}
		return Outcome{"item": nil}
	case "get":
		res, err := c.GetItem(&v1sdk.GetItemInput{TableName: strptr(o.Table), Key: toV1Item(itemOrEmpty(o.KeyItem))})
		if err != nil {
			return errOutcomeV1(err)
		}
		return Outcome{"item": fromV1Item(res.Item)}
	case "query":
		lek, items, err := searchV1(c, o, o.StartKey)
		if err != nil {
			return errOutcomeV1(err)
		}
		return Outcome{"search": SearchOut{Items: items, Count: int64(len(items)), LEK: lek}}
	case "pages":
		pages := []PageOut{}
		start := o.StartKey
		for n := 0; n < o.MaxPages; n++ {
			lek, items, eo := safeSearchV1(c, o, start)
			if eo != nil {
				if len(pages) == 0 {
					return eo
				}
				return Outcome{"pagesErr": map[string]interface{}{"pages": pages, "error": eo}}
			}
			pages = append(pages, PageOut{Items: items, LEK: lek})
			if len(lek) == 0 {
				break
			}
			if o.DelAfter != nil && *o.DelAfter == n {
				c.DeleteItem(&v1sdk.DeleteItemInput{TableName: strptr(o.Table), Key: toV1Item(primaryKeyOf(o, lek))})
			}
			start = lek
		}
		return Outcome{"pages": pages}
	case "batchWrite":
		in := &v1sdk.BatchWriteItemInput{RequestItems: map[string][]*v1sdk.WriteRequest{}}
		for _, tr := range o.WReqs {
			for _, r := range tr.Reqs {
				w := &v1sdk.WriteRequest{}
				switch {
				case r.Both != nil:
					w.PutRequest = &v1sdk.PutRequest{Item: toV1Item(r.Both[0])}
					w.DeleteRequest = &v1sdk.DeleteRequest{Key: toV1Item(r.Both[1])}
				case r.Neither:
				case r.Put != nil:
					w.PutRequest = &v1sdk.PutRequest{Item: toV1Item(r.Put)}
				default:
					w.DeleteRequest = &v1sdk.DeleteRequest{Key: toV1Item(itemOrEmpty(r.Del))}
				}
				in.RequestItems[string(tr.Table)] = append(in.RequestItems[string(tr.Table)], w)
			}
		}
		res, err := c.BatchWriteItem(in)
		if err != nil {
			return errOutcomeV1(err)
		}
		unp := []TableReqs{}
		for t, rs := range res.UnprocessedItems {
			tr := TableReqs{Table: HexS(t)}
			for _, r := range rs {
				switch {
				case r.PutRequest != nil:
					tr.Reqs = append(tr.Reqs, WReq{Put: fromV1Item(r.PutRequest.Item)})
				case r.DeleteRequest != nil:
					tr.Reqs = append(tr.Reqs, WReq{Del: fromV1Item(r.DeleteRequest.Key)})
				}
			}
			unp = append(unp, tr)
		}
		sort.Slice(unp, func(i, j int) bool { return unp[i].Table < unp[j].Table })
		return Outcome{"batchWrite": unp}
	case "batchGet":
		return Outcome{"na": true} // the v1 client does not implement BatchGetItem
	case "transactWrite":
		_, err := c.TransactWriteItems(&v1sdk.TransactWriteItemsInput{})
		if err != nil {
			return errOutcomeV1(err)
		}
		return okOut()
	case "setFailure":
		switch {
		case o.Legacy && o.F == "none":
			v1.DeactiveForceFailure(c0)
		case o.Legacy && o.F == "deprecated":
			v1.ActiveForceFailure(c0)
		default:
			v1.EmulateFailure(c0, v1.FailureCondition(o.F))
		}
		return okOut()
	case "activateNative":
		c.ActivateNativeInterpreter()
		return okOut()
	case "setInterpreter":
		c.SetInterpreter(interpreter.NewNativeInterpreter())
		return okOut()
	case "registerMatcher":
		c.GetNativeInterpreter().AddMatcher(string(o.Table), exprKind(o.Kind), string(o.Expr), matcherFunc(o.ID))
		return okOut()
	case "registerUpdater":
		c.GetNativeInterpreter().AddUpdater(string(o.Table), string(o.Expr), updaterFunc(o.ID))
		return okOut()
	}
	return Outcome{"crash": "unknown op " + o.Op}
}

// safeSearchV1 turns an error or a panic of one page read into an outcome
func safeSearchV1(c v1c, o *Op, start Item) (lek Item, items []Item, eo Outcome) {
	defer func() {
		if r := recover(); r != nil {
			eo = crashOutcome(r)
		}
	}()
	lek, items, err := searchV1(c, o, start)
	if err != nil {
		return nil, nil, errOutcomeV1(err)
	}
	return lek, items, nil
}

// v1c calls every operation alternately through its plain method and through its WithContext variant: the two are one operation
type v1c struct{ *v1.Client }

var v1UseCtx bool

func v1ctx() bool { v1UseCtx = !v1UseCtx; return v1UseCtx }

func (w v1c) Scan(in *v1sdk.ScanInput) (*v1sdk.ScanOutput, error) {
	if v1ctx() {
		return w.Client.ScanWithContext(context.Background(), in)
	}
	return w.Client.Scan(in)
}

func (w v1c) Query(in *v1sdk.QueryInput) (*v1sdk.QueryOutput, error) {
	if v1ctx() {
		return w.Client.QueryWithContext(context.Background(), in)
	}
	return w.Client.Query(in)
}

func (w v1c) CreateTable(in *v1sdk.CreateTableInput) (*v1sdk.CreateTableOutput, error) {
	if v1ctx() {
		return w.Client.CreateTableWithContext(context.Background(), in)
	}
	return w.Client.CreateTable(in)
}

func (w v1c) DeleteTable(in *v1sdk.DeleteTableInput) (*v1sdk.DeleteTableOutput, error) {
	if v1ctx() {
		return w.Client.DeleteTableWithContext(context.Background(), in)
	}
	return w.Client.DeleteTable(in)
}

func (w v1c) DescribeTable(in *v1sdk.DescribeTableInput) (*v1sdk.DescribeTableOutput, error) {
	if v1ctx() {
		return w.Client.DescribeTableWithContext(context.Background(), in)
	}
	return w.Client.DescribeTable(in)
}

func (w v1c) UpdateTable(in *v1sdk.UpdateTableInput) (*v1sdk.UpdateTableOutput, error) {
	if v1ctx() {
		return w.Client.UpdateTableWithContext(context.Background(), in)
	}
	return w.Client.UpdateTable(in)
}

func (w v1c) PutItem(in *v1sdk.PutItemInput) (*v1sdk.PutItemOutput, error) {
	if v1ctx() {
		return w.Client.PutItemWithContext(context.Background(), in)
	}
	return w.Client.PutItem(in)
}

func (w v1c) UpdateItem(in *v1sdk.UpdateItemInput) (*v1sdk.UpdateItemOutput, error) {
	if v1ctx() {
		return w.Client.UpdateItemWithContext(context.Background(), in)
	}
	return w.Client.UpdateItem(in)
}

func (w v1c) DeleteItem(in *v1sdk.DeleteItemInput) (*v1sdk.DeleteItemOutput, error) {
	if v1ctx() {
		return w.Client.DeleteItemWithContext(context.Background(), in)
	}
	return w.Client.DeleteItem(in)
}

func (w v1c) GetItem(in *v1sdk.GetItemInput) (*v1sdk.GetItemOutput, error) {
	if v1ctx() {
		return w.Client.GetItemWithContext(context.Background(), in)
	}
	return w.Client.GetItem(in)
}

func (w v1c) BatchWriteItem(in *v1sdk.BatchWriteItemInput) (*v1sdk.BatchWriteItemOutput, error) {
	if v1ctx() {
		return w.Client.BatchWriteItemWithContext(context.Background(), in)
	}
	return w.Client.BatchWriteItem(in)
}

func (w v1c) TransactWriteItems(in *v1sdk.TransactWriteItemsInput) (*v1sdk.TransactWriteItemsOutput, error) {
	if v1ctx() {
		return w.Client.TransactWriteItemsWithContext(context.Background(), in)
	}
	return w.Client.TransactWriteItems(in)
}
