package main

import (
	"bytes"
	"errors"
	"sort"
	"strings"

	v2types "github.com/aws/aws-sdk-go-v2/service/dynamodb/types"

	"github.com/truora/minidyn/interpreter/language"
)

func sortPairs(p [][2]string) {
	sort.Slice(p, func(i, j int) bool { return p[i][0] < p[j][0] })
}

// canonKeysOnly sorts the entries by key but leaves the values exactly as generated
func canonKeysOnly(it Item) Item {
	out := append(Item{}, it...)
	sort.SliceStable(out, func(i, j int) bool { return bytes.Compare(out[i].K, out[j].K) < 0 })
	return out
}

func IsReservedUpper(s string) bool { return language.IsReservedWord(strings.ToUpper(s)) }

func asCCF(err error, target **v2types.ConditionalCheckFailedException) bool {
	return errors.As(err, target)
}
